#!/bin/sh
# Build the overlay venv used by every check: /venv (the repository's own
# environment, left untouched) + crosshair-tool + z3-solver from the offline
# wheelhouse.  Idempotent; needs no network.
set -e
cd "$(dirname "$0")"
if [ -x .venv/bin/python ] && .venv/bin/python -c "import crosshair, z3, codebasin" 2>/dev/null; then
    exit 0
fi
rm -rf .venv
/venv/bin/python -m venv .venv
SP=$(.venv/bin/python -c "import sysconfig; print(sysconfig.get_paths()['purelib'])")
printf '%s\n%s\n' /venv/lib/python3.12/site-packages /repo > "$SP/_overlay.pth"
PIP_NO_INDEX=1 .venv/bin/python -m pip install -q --no-index --find-links /opt/veriftools/wheels crosshair-tool z3-solver
.venv/bin/python -c "import crosshair, z3, codebasin; print('overlay ok', crosshair.__version__, z3.get_version_string())"
