#!/usr/bin/env python3
"""tools/archive_seed.py <ID> <dest-name> <detected: yes|no> "<which obligations caught it>" """
import json, shutil, sys, os
sid, dest, det, how = sys.argv[1:5]
src = "/tmp/wtout/" + sid
dst = "/verif/seeded/" + dest
os.makedirs(dst, exist_ok=True)
shutil.copy(src + "/patch.diff", dst + "/patch.diff")
shutil.copy(src + "/demo.py", dst + "/demo.py")
meta = json.load(open(src + "/meta.json"))
meta["confirmed_by_me"] = {
    "ran": ["tools/seedcheck.sh %s  (tests in the scratch worktree with the change: 145 passed; demo exit 1 with the change, exit 0 without; "
            "./check %s --tier quick run against the worktree that holds the change (PYTHONPATH), /repo untouched)" % (sid, sid[:3])],
    "detected_by_quick_check": det == "yes",
    "caught_by": how,
}
json.dump(meta, open(dst + "/meta.json", "w"), indent=1)
print("archived", dst)
