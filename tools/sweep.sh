#!/bin/sh
# tools/sweep.sh [ids...] : final sweep - apply every archived seed to /repo in turn (git -C /repo apply), run the
# property's quick check, undo it straight afterwards (git -C /repo checkout -- .).  /repo must be clean and no other run
# may be using it.  Prints one line per seed.
cd /verif
[ -z "$(git -C /repo status --short)" ] || { echo "/repo is not clean"; exit 2; }
IDS="$@"; [ -n "$IDS" ] || IDS=$(ls seeded)
for id in $IDS; do
  pid=$(echo $id | cut -c1-3)
  if ! git -C /repo apply --check /verif/seeded/$id/patch.diff 2>/dev/null; then echo "$id NOAPPLY"; continue; fi
  git -C /repo apply /verif/seeded/$id/patch.diff
  out=$(./check $pid --tier quick --no-evidence 2>&1 | grep "SUMMARY" | sed 's/.*violations=\([0-9]*\).*harness_errors=\([0-9]*\).*wall=\(.*\)/violations=\1 harness_errors=\2 wall=\3/')
  git -C /repo checkout -- . ; rm -f /repo/cbi.log
  echo "$id $out"
done
[ -z "$(git -C /repo status --short)" ] && echo "repo clean"
