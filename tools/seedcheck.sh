#!/bin/sh
# tools/seedcheck.sh <ID> [check args...] : confirm a sub-agent's seeded change in its scratch worktree and run the
# property's check against that worktree.  The worktree is reset and the agent's patch.diff applied (no `git stash`:
# the stash is shared by all worktrees of a repository, concurrent agents would trade changes).
ID=$1; shift
WT=/tmp/wt/$ID; OUT=/tmp/wtout/$ID
set -u
git -C $WT checkout -q -- . && git -C $WT apply $OUT/patch.diff || { echo "patch.diff does not apply to the worktree's HEAD"; exit 2; }
echo "== worktree status"; git -C $WT status --short | head
echo "== tests with change"; (cd $WT && /venv/bin/python -m pytest -q -p no:cacheprovider --timeout=900 2>&1 | tail -1); rm -f $WT/cbi.log
echo "== demo with change"; (cd $WT && /venv/bin/python $OUT/demo.py >/dev/null 2>&1; echo "exit=$?")
git -C $WT diff > /tmp/wtout/$ID/confirm.diff
git -C $WT apply -R $OUT/patch.diff
echo "== demo without change"; (cd $WT && /venv/bin/python $OUT/demo.py >/dev/null 2>&1; echo "exit=$?")
git -C $WT apply $OUT/patch.diff
rm -f $WT/cbi.log
echo "== run the property's check against the worktree (PYTHONPATH puts it before /repo; /repo itself is not touched)"
PID=$(echo $ID | cut -c1-3)
(cd /verif && PYTHONPATH=$WT ./check $PID --tier quick --no-evidence "$@" 2>&1 | grep -v "^Compiler\|^Unrecognized" | grep "VIOLATION\|SUMMARY\|HARNESS\|KNOWN" | head -8)
(cd /verif && PYTHONPATH=$WT .venv/bin/python -c "import codebasin; print('checked against', codebasin.__file__)" 2>/dev/null)
rm -f $WT/cbi.log
