#!/bin/sh
# tools/seedcheck.sh <ID> [check args...] : confirm a sub-agent's seeded change in its scratch worktree, then apply it to
# /repo, run the property's check, and undo it straight afterwards.
ID=$1; shift
WT=/tmp/wt/$ID; OUT=/tmp/wtout/$ID
set -u
echo "== worktree status"; git -C $WT status --short | head
echo "== tests with change"; (cd $WT && /venv/bin/python -m pytest -q -p no:cacheprovider --timeout=900 2>&1 | tail -1); rm -f $WT/cbi.log
echo "== demo with change"; (cd $WT && /venv/bin/python $OUT/demo.py >/dev/null 2>&1; echo "exit=$?")
git -C $WT diff > /tmp/wtout/$ID/confirm.diff
git -C $WT stash -q
echo "== demo without change"; (cd $WT && /venv/bin/python $OUT/demo.py >/dev/null 2>&1; echo "exit=$?")
git -C $WT stash pop -q
rm -f $WT/cbi.log
echo "== run the property's check against the worktree (PYTHONPATH puts it before /repo; /repo itself is not touched)"
PID=$(echo $ID | cut -c1-3)
(cd /verif && PYTHONPATH=$WT ./check $PID --tier quick --no-evidence "$@" 2>&1 | grep -v "^Compiler\|^Unrecognized" | grep "VIOLATION\|SUMMARY\|HARNESS\|KNOWN" | head -8)
(cd /verif && PYTHONPATH=$WT .venv/bin/python -c "import codebasin; print('checked against', codebasin.__file__)" 2>/dev/null)
rm -f $WT/cbi.log
