#!/bin/sh
# tools/rebase_seed.sh <ID> : the scratch worktree /tmp/wt/rebase (at /repo's HEAD) holds the seed's change re-applied
# (3-way or by hand); confirm it again (tests, demo, the property's check) and store the re-based patch.
ID=$1
WT=/tmp/wt/rebase; S=/verif/seeded/$ID
set -u
(cd $WT && git diff HEAD > /tmp/rebased_$ID.diff)
[ -s /tmp/rebased_$ID.diff ] || { echo "no change in $WT"; exit 2; }
echo "== tests with change"; (cd $WT && /venv/bin/python -m pytest -q -p no:cacheprovider --timeout=900 2>&1 | tail -1); rm -f $WT/cbi.log
DEMO=$(ls $S/demo.py $S/demo.sh 2>/dev/null | head -1)
echo "== demo with change"; (cd $WT && /venv/bin/python $DEMO >/dev/null 2>&1; echo "exit=$?")
(cd $WT && git reset -q --hard HEAD)
echo "== demo without change"; (cd $WT && /venv/bin/python $DEMO >/dev/null 2>&1; echo "exit=$?")
(cd $WT && git apply /tmp/rebased_$ID.diff)
PID=$(echo $ID | cut -c1-3)
echo "== check"; (cd /verif && PYTHONPATH=$WT ./check $PID --tier quick --no-evidence 2>&1 | grep "VIOLATION\|SUMMARY\|HARNESS" | head -4 | cut -c1-200)
rm -f $WT/cbi.log
