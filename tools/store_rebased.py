#!/verif/.venv/bin/python
"""tools/store_rebased.py <ID> <repo-head> : replace seeded/<ID>/patch.diff by /tmp/rebased_<ID>.diff and note it in meta.json"""
import json, shutil, sys
sid, head = sys.argv[1], sys.argv[2]
d = "/verif/seeded/%s" % sid
shutil.copy(d + "/patch.diff", d + "/patch.orig.diff")
shutil.copy("/tmp/rebased_%s.diff" % sid, d + "/patch.diff")
m = json.load(open(d + "/meta.json"))
m["rebased"] = ("patch.diff re-based on /repo %s after upstream repairs touched the same lines (same change; tests, demo and the "
                "check confirmed again); the agent's original is patch.orig.diff" % head)
json.dump(m, open(d + "/meta.json", "w"), indent=1)
print("stored", sid)
