#!/bin/sh
# tools/psweep.sh <ids...> : like sweep.sh, but never touches /repo: every archived seed is applied in a scratch
# worktree of /repo's HEAD and the property's quick check runs against that worktree (PYTHONPATH precedes the editable
# install).  Safe while other runs use /repo.  Prints one line per seed; removes each worktree afterwards.
cd /verif
for id in "$@"; do
  pid=$(echo $id | cut -c1-3)
  wt=/tmp/wt/sw_$id
  rm -rf $wt; git -C /repo worktree add -q --detach $wt HEAD || { echo "$id NOWORKTREE"; continue; }
  if ! git -C $wt apply /verif/seeded/$id/patch.diff 2>/dev/null; then echo "$id NOAPPLY"; git -C /repo worktree remove --force $wt; continue; fi
  out=$(PYTHONPATH=$wt ./check $pid --tier quick --no-evidence 2>&1 | grep "SUMMARY" | sed 's/.*violations=\([0-9]*\).*inconclusive=\([0-9]*\).*harness_errors=\([0-9]*\).*wall=\(.*\)/violations=\1 inconclusive=\2 harness_errors=\3 wall=\4/')
  git -C /repo worktree remove --force $wt
  echo "$id $out"
done
git -C /repo worktree prune
