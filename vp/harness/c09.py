"""C09 - code-base membership (PARTIAL: CBI's own decision glue; gitignore semantics and directory walking are
third-party / OS code that cannot be executed symbolically - see LEVEL_NOTE).

glue/     CodeBase.__contains__ with pathlib.Path replaced by a façade whose exists / is_dir / is_relative_to answers and
          whose GitIgnoreSpec verdict are symbolic: result == exists & !dir & recognised extension & under some directory
          & !matched, and the pattern verdict is requested for the path relative to the first directory that contains it
iter/     __iter__ yields exactly the enumerated paths for which __contains__ holds
ext/      is_source_file(name) <=> FileLanguage(name).get_language() is not None, for a symbolic extension index
spelling/ real CodeBase on a real scratch tree: every spelling (relative, absolute, with . and .., through a directory
          link, through a file link) of a file gets the verdict of its canonical spelling; a link whose target is outside
          the code base is not a member
"""

from __future__ import annotations

import os
from collections import Counter

from vp import scen
from vp.driver import Ob

PROPERTY = "C09"
LEVEL = "other"
ENGINE = "crosshair+z3"
TECHNIQUE = "CrossHair symbolic execution of CodeBase.__contains__/__iter__ with symbolic file-system and pattern-match answers"
FUNCTIONS = ["codebasin/__init__.py:CodeBase.__contains__", "codebasin/__init__.py:CodeBase.__iter__", "codebasin/source.py:is_source_file",
             "codebasin/language.py:FileLanguage"]
STUBS = ["glue/, iter/: codebasin.Path and codebasin.source.Path -> façade with symbolic exists/is_dir/is_relative_to; "
         "codebasin.pathspec.GitIgnoreSpec -> stub returning a symbolic verdict and recording the path it was asked about"]
ASSUMPTIONS = ["gitignore pattern semantics (pathspec vs `git check-ignore`) are NOT checked: third-party regex code",
               "real directory walking (rglob) is replaced by a fixed listing in iter/; spelling/ uses the real file system untraced"]
BOUNDS = {"quick": "glue/: all answer combinations for 2 directories and 8 extensions; iter/: 3 enumerated paths in all 6 enumeration orders; ext/: all 38 extensions of "
                   "both lists plus 6 foreign ones; spelling/: 9 file spellings x 4 spellings of the code-base directory x 5 exclude lists (incl. negated patterns in both orders)",
          "thorough": "same (exhausted)"}
EXPLANATION = ("The environment's answers (exists, is_dir, containment per directory, pattern verdict) are symbolic bools; CrossHair exhausts "
               "them through the real __contains__/__iter__ and the result is compared with the conjunction the property states. Spelling "
               "independence runs the real CodeBase on a real scratch tree for solver-enumerated spellings.")

P = {}
STATS = Counter()
LAST = {}

EXTS = [".c", ".h", ".cpp", ".f90", ".S", ".txt", "", ".o"]
DIRS = ["/r/one", "/r/two"]


def _mk_facade(state):
    class FP:
        def __init__(self, p):
            self.p = p.p if isinstance(p, FP) else str(p)

        def resolve(self):
            state["resolved"] = True
            return FP(self.p)

        def exists(self):
            return state["exists"]

        def is_dir(self):
            return state["is_dir"]

        @property
        def suffix(self):
            return state["ext"]

        def is_relative_to(self, d):
            return state["rel"][str(d)]

        def relative_to(self, d):
            if not state["rel"][str(d)]:
                raise ValueError("not relative")
            return ("REL", str(d))

        def __str__(self):
            return self.p

        def __fspath__(self):
            return self.p

    return FP


def h_glue(ex: bool, isd: bool, e: int, r0: bool, r1: bool, m: bool) -> bool:
    """
    pre: 0 <= e < 8
    post: _
    """
    import codebasin
    import codebasin.source

    ext = None
    for k in range(8):
        if e == k:
            ext = EXTS[k]
    state = dict(exists=ex, is_dir=isd, ext=ext, rel={DIRS[0]: r0, DIRS[1]: r1}, resolved=False)
    asked = []
    handed = []

    class Spec:
        @staticmethod
        def from_lines(lines):
            handed.append(list(lines))

            class S:
                def match_file(self, rel):
                    asked.append(rel)
                    return m

            return S()

    class PS:
        GitIgnoreSpec = Spec

    FP = _mk_facade(state)
    STATS["compared"] += 1
    if P.get("_twin"):
        return False
    cb = codebasin.CodeBase.__new__(codebasin.CodeBase)
    cb._directories = [FP(d) for d in DIRS]
    # gitignore rules are order-sensitive (the last matching pattern decides, `!` re-includes): the list must reach
    # the matcher as the user gave it, duplicates and all
    cb._excludes = ["*.gen.c", "!keep.gen.c", "zz/", "*.gen.c", "!aa.c"]
    saved = (codebasin.Path, codebasin.source.Path, codebasin.pathspec)
    codebasin.Path = FP
    codebasin.source.Path = FP
    codebasin.pathspec = PS
    try:
        got = cb.__contains__(FP("/somewhere/x" + ext))
    except Exception as exn:
        if P.get("_replay"):
            LAST.update(exception=repr(exn))
        return False
    finally:
        codebasin.Path, codebasin.source.Path, codebasin.pathspec = saved
    recognised = ext in (".c", ".h", ".cpp", ".f90", ".S")
    under = r0 or r1
    want = ex and (not isd) and recognised and under and (not m)
    ok = bool(got) == bool(want)
    if ok and ex and (not isd) and recognised and under:
        first = DIRS[0] if r0 else DIRS[1]
        ok = asked == [("REL", first)] and state["resolved"] and handed == [["*.gen.c", "!keep.gen.c", "zz/", "*.gen.c", "!aa.c"]]
    if P.get("_replay"):
        LAST.update(exists=bool(ex), is_dir=bool(isd), ext=ext, under=[bool(r0), bool(r1)], matched=bool(m), got=bool(got),
                    expected=bool(want), asked=asked)
    return ok


def h_iter(b0: bool, b1: bool, b2: bool, eo: int) -> bool:
    """
    pre: 0 <= eo < 6
    post: _
    """
    import itertools

    import codebasin

    bits = [b0, b1, b2]
    names = ["/r/one/a.c", "/r/one/sub/b.h", "/r/one/c.cpp"]
    order = None
    for k, perm in enumerate(itertools.permutations(names)):
        if eo == k:
            order = list(perm)  # the order in which the file system enumerates the directory entries

    class FP:
        def __init__(self, p):
            self.p = str(p)

        def rglob(self, pat):
            if self.p == "/r/one":
                return [FP(n) for n in order]
            # the second code-base directory lies inside the first: its file is enumerated a second time by the walk
            return [FP(n) for n in order if n.startswith("/r/one/sub/")] if self.p == "/r/one/sub" else []

        def __str__(self):
            return self.p

        def __lt__(self, other):  # as pathlib: component-wise
            return self.p.split("/") < other.p.split("/")

        def __eq__(self, other):
            return isinstance(other, FP) and self.p == other.p

        def __hash__(self):
            return len(self.p)

    STATS["compared"] += 1
    if P.get("_twin"):
        return False
    cb = codebasin.CodeBase.__new__(codebasin.CodeBase)
    cb._directories = [FP("/r/one"), FP("/r/one/sub")]
    cb._excludes = []
    member = dict(zip(names, bits))
    old_p, old_c = codebasin.Path, codebasin.CodeBase.__contains__
    codebasin.Path = FP
    codebasin.CodeBase.__contains__ = lambda self, p: member[str(p)]
    try:
        got = list(cb)
    except Exception as e:
        if P.get("_replay"):
            LAST.update(exception=repr(e))
        return False
    finally:
        codebasin.Path = old_p
        codebasin.CodeBase.__contains__ = old_c
    # exactly the members, in an order that does not depend on the enumeration order of the file system
    want = sorted([n for n in names if member[n]], key=lambda n: n.split("/"))
    if P.get("_replay"):
        LAST.update(got=got, expected=want, enumeration_order=order)
    return got == want and all(isinstance(x, str) for x in got)


ALL_EXT = [".f90", ".F90", ".f", ".ftn", ".fpp", ".F", ".FOR", ".FTN", ".FPP", ".c", ".h", ".c++", ".cxx", ".cpp", ".cc", ".hpp", ".hxx",
           ".h++", ".hh", ".inc", ".inl", ".tcc", ".icc", ".ipp", ".cu", ".cuh", ".cl", ".s", ".S", ".asm", ".txt", ".o", ".py", "", ".C",
           ".H", ".for", ".f95"]


def h_ext(i: int) -> bool:
    """
    pre: 0 <= i < 38
    post: _
    """
    from codebasin.language import FileLanguage
    from codebasin.source import is_source_file

    ext = None
    for k in range(38):
        if i == k:
            ext = ALL_EXT[k]
    STATS["compared"] += 1
    if P.get("_twin"):
        return False
    with scen.untraced():
        name = "/r/dir.d/file" + ext
        a = is_source_file(name)
        b = FileLanguage(name).get_language() is not None
    if P.get("_replay"):
        LAST.update(ext=ext, is_source_file=a, has_language=b)
    return a == b


SPELLINGS = ["{root}/src/a.c", "src/a.c", "./src/a.c", "src/../src/a.c", "src/sub/../a.c", "{root}/src/./a.c", "ldir/a.c", "lfile.c",
             "{root}/ldir/sub/../a.c"]
EXCLUDES = [[], ["src/a.c"], ["*.c"], ["*.c", "!a.c"], ["!a.c", "*.c"]]
A_IS_MEMBER = [True, False, False, True, False]  # (the last matching pattern decides)


ROOT_SPELLINGS = ["{root}", "{root}/src/..", "{rootlink}", "{root}/ldir/.."]


def h_spelling(s: int, x: int, r: int) -> bool:
    """
    pre: 0 <= s < 9 and 0 <= x < 5 and 0 <= r < 4
    post: _
    """
    import shutil
    import tempfile

    si = xi = ri = None
    for k in range(4):
        if r == k:
            ri = k
    for k in range(9):
        if s == k:
            si = k
    for k in range(5):
        if x == k:
            xi = k
    STATS["compared"] += 1
    if P.get("_twin"):
        return False
    why = None
    with scen.untraced():
        import codebasin

        d = os.path.realpath(tempfile.mkdtemp(prefix="vp_c09_"))
        out = os.path.realpath(tempfile.mkdtemp(prefix="vp_c09o_"))
        cwd = os.getcwd()
        try:
            os.makedirs(d + "/src/sub")
            for p in (d + "/src/a.c", d + "/src/b.c", out + "/x.c"):
                with open(p, "w") as f:
                    f.write("int a;\n")
            os.makedirs(d + "/src-old")
            with open(d + "/src-old/legacy.c", "w") as f:
                f.write("int l;\n")
            os.symlink(d + "/src", d + "/ldir")
            os.symlink(d + "/src/a.c", d + "/lfile.c")
            os.symlink(out + "/x.c", d + "/lout.c")
            os.symlink(d + "/nowhere.c", d + "/dangling.c")
            os.symlink(d, out + "/rootlink")
            os.chdir(d)
            # the code-base directory itself may be given canonically, with '..', or through a symbolic link
            rootsp = ROOT_SPELLINGS[ri].format(root=d, rootlink=out + "/rootlink")
            cb = codebasin.CodeBase(rootsp, exclude_patterns=list(EXCLUDES[xi]))
            canon = (d + "/src/a.c") in cb
            sp = SPELLINGS[si].format(root=d)
            got = sp in cb
            if got != canon:
                why = "spelling %r -> %s, canonical -> %s" % (SPELLINGS[si], got, canon)
            elif canon != A_IS_MEMBER[xi]:
                why = "exclude list %s: canonical membership %s" % (EXCLUDES[xi], canon)
            elif (d + "/lout.c") in cb or "lout.c" in cb:
                why = "a link whose target is outside the code base is reported as a member"
            elif (d + "/dangling.c") in cb:
                why = "a dangling link is reported as a member"
            elif (d + "/src-old/legacy.c") in codebasin.CodeBase(d + "/src") or "src/../src-old/legacy.c" in codebasin.CodeBase(d + "/src"):
                why = "a file in a sibling directory whose name starts with the code-base directory's name is reported as a member"
            else:
                listed = sorted(cb)
                want = sorted([d + "/src/a.c", d + "/src/b.c", d + "/lfile.c", d + "/src-old/legacy.c"]) if xi == 0 else (
                    [d + "/src/b.c"] if xi == 1 else [])
                if [m for m in listed if m in cb] != listed:
                    why = "enumeration yields a non-member"
                elif xi == 0 and sorted(os.path.realpath(m) for m in listed) != sorted(os.path.realpath(w) for w in want):
                    why = "enumeration %s != members %s" % (listed, want)
        except Exception as e:
            why = "exception " + repr(e)
        finally:
            os.chdir(cwd)
            shutil.rmtree(d, ignore_errors=True)
            shutil.rmtree(out, ignore_errors=True)
    if P.get("_replay"):
        LAST.update(spelling=SPELLINGS[si], excludes=EXCLUDES[xi], root_spelling=ROOT_SPELLINGS[ri], why=why)
    return why is None


def obligations(tier, known):
    return [
        Ob(id="glue/contains", kind="ch", module=__name__, func="h_glue", params={}, timeout=300, group="glue"),
        Ob(id="iter/listing", kind="ch", module=__name__, func="h_iter", params={}, timeout=120, group="iter"),
        Ob(id="ext/consistency", kind="ch", module=__name__, func="h_ext", params={}, timeout=120, group="ext"),
        Ob(id="spelling/real-fs", kind="ch", module=__name__, func="h_spelling", params={}, timeout=300, group="spelling"),
    ]


CLAIM = ("CBI's own membership glue is decided for every combination of file-system and pattern-match answers: membership is the stated "
         "conjunction, the pattern is evaluated on the resolved path relative to the containing directory, enumeration yields exactly the "
         "members, recognised extensions and language detection agree, and 9 path spellings (incl. symlinks) get the canonical verdict.")
LEVEL_NOTE = ("PARTIAL. Not covered and not coverable by this technique here: gitignore pattern semantics against `git check-ignore` "
              "(pathspec's regex engine realises every symbolic string; checking it would test the library, not this repository), real "
              "directory walking, names with glob metacharacters. Trusted: the façade's fidelity to pathlib, CrossHair/z3.")
