"""C13 - compilation-database entries resolve to the right files and directories.

The real config.load_database (with the real CompileCommand/CompilationDatabase.from_json and schema validation) is
run on a database assembled from symbolic spelling classes; os.path.* answers from a MemFS.  Oracle: ref_paths - the
compiler's working directory is `directory` (resolved against the analysis root when relative), `file` and relative
-I values are interpreted from there.
"""

from __future__ import annotations

import posixpath
from collections import Counter

from vp import memfs
from vp.driver import Ob

PROPERTY = "C13"
LEVEL = "other"
ENGINE = "crosshair+z3"
TECHNIQUE = "CrossHair symbolic execution of the real load_database over databases built from symbolic spelling classes"
FUNCTIONS = ["codebasin/config.py:load_database", "codebasin/__init__.py:CompileCommand.is_supported/from_json/arguments",
             "codebasin/__init__.py:CompilationDatabase.from_json", "codebasin/util.py:_validate_json",
             "codebasin/config.py:ArgumentParser.parse_args (for -I extraction)"]
STUBS = ["CompilationDatabase.from_file -> from_json on the harness-built document (no real file)",
         "config.os -> MemFS façade (exists/abspath/isabs/join); config.log -> recorder"]
ASSUMPTIONS = ["the analysis root is /r; POSIX path semantics",
               "an entry whose command cannot be emulated contributes nothing and is reported by one warning"]
BOUNDS = {
    "quick": "databases of 2 entries: entry 1 ranges over 5 directory x 4 file x 4 -I spelling classes (good entry) or 5 bad-entry "
             "kinds; entry 2 is a fixed good entry placed before or after (symbolic order)",
    "thorough": "same as quick (the space is exhausted in both tiers), both `command` and `arguments` forms",
}
EXPLANATION = (
    "The database document is assembled from bounded symbolic indices (spelling class of directory / file / -I, entry kind, "
    "order); CrossHair exhausts the index space - once the indices are decided every value is concrete and the real "
    "load_database runs untraced on that leaf - and the result is compared with an independent POSIX path "
    "model; bad entries must contribute nothing, be reported once, and leave the other entry untouched."
)

P = {}
STATS = Counter()
LAST = {}

ROOT = "/r"
DIR_CLASSES = [None, "/r/build", "/out/build", "build", "build/../build2", "blink"]  # blink -> /out/build (a symbolic link)
FILE_CLASSES = ["/r/src/a.c", "../src/a.c", "./x.c", "sub/../x.c"]
INC_CLASSES = ["/r/inc", "inc", "../inc", "."]
KINDS = ["good", "missing", "object", "link", "empty-command", "empty-arguments", "blank-command"]


def _fs():
    fs = memfs.MemFS("/cwd")  # the process cwd is deliberately NOT the root: relative paths must not depend on it
    for p in ["/r/src/a.c", "/r/x.c", "/r/build/x.c", "/r/build2/x.c", "/out/build/x.c", "/out/src/a.c", "/r/ok.c", "/r/build/a.o",
              "/r/a.o"]:
        fs.add(p, ["@"])
    fs.mkdir("/r/build/sub")
    fs.mkdir("/r/build2/sub")
    fs.mkdir("/out/build/sub")
    fs.mkdir("/r/sub")
    fs.symlink("/r/blink", "/out/build")
    return fs


def ref_paths(directory, file, incs):
    cwd = ROOT if directory is None else (directory if directory.startswith("/") else posixpath.normpath(posixpath.join(ROOT, directory)))
    # a process started in a directory reached through a symbolic link sits in the link's target: '..' climbs from there
    cwd = _fs().realpath(cwd)
    f = posixpath.normpath(posixpath.join(cwd, file))
    return f, [posixpath.normpath(posixpath.join(cwd, i)) for i in incs]


INC_FORMS = [lambda d: ["-I", d], lambda d: ["-I" + d], lambda d: ["-isystem", d], lambda d: ["-isystem" + d]]


def _entry(kind, dcls, fcls, icls, form, iform=0):
    e = {}
    if dcls is not None:
        e["directory"] = dcls
    # the include directory is given with -I or -isystem, detached or attached: all are directories a compiler running
    # in `directory` would interpret relative to it
    args = ["gcc"] + INC_FORMS[iform](icls) + ["-DX", "-c", fcls]
    e["file"] = fcls
    if kind == "missing":
        e["file"] = "nowhere/gone.c"
        args[-1] = e["file"]
    elif kind == "object":
        e["file"] = "a.o"
        args = ["gcc", "-o", "a.out", "a.o"]
    elif kind == "link":
        e["file"] = "a.o"
        args = ["ld", "a.o"]
    if kind == "empty-command":
        e["command"] = ""
    elif kind == "empty-arguments":
        e["arguments"] = []
    elif kind == "blank-command":
        e["command"] = "   "  # nothing but white space: no tool is invoked, whatever the stored string's truth value
    elif form == "command":
        e["command"] = " ".join(args)
    else:
        e["arguments"] = args
    return e


def _pre(kind, d, f, i, first, nodir, iform):
    if not (0 <= kind < len(KINDS) and 0 <= d < 6 and 0 <= f < 4 and 0 <= i < 4 and 0 <= iform < 4):
        return False
    if kind != 0 and iform != 0:
        return False
    fx = P.get("fixkind")
    if fx is not None and kind != fx:
        return False
    fd = P.get("fixdir")
    if fd is not None and d != fd:
        return False
    if kind != 0 and (f != 0 or i != 0):
        return False  # spelling classes only matter for the good entry
    return True


def _untraced():
    import contextlib

    try:
        from crosshair.tracers import NoTracing, is_tracing

        if is_tracing():
            return NoTracing()
    except Exception:
        pass
    return contextlib.nullcontext()


def h_db(kind: int, d: int, f: int, i: int, first: bool, nodir: bool, iform: int) -> bool:
    """
    pre: _pre(kind, d, f, i, first, nodir, iform)
    post: _
    """
    import codebasin
    import codebasin.config as config

    kd = dc = fc = ic = None
    for k in range(len(KINDS)):
        if kind == k:
            kd = KINDS[k]
    for k in range(6):
        if d == k:
            dc = DIR_CLASSES[k]
    for k in range(4):
        if f == k:
            fc = FILE_CLASSES[k]
        if i == k:
            ic = INC_CLASSES[k]
    ifm = None
    for k in range(4):
        if iform == k:
            ifm = k
    # the neighbour entry has no `directory` of its own (root-relative spelling) or an explicit one: nothing computed
    # for one entry may leak into the next
    if nodir:
        fixed = {"file": "ok.c", "arguments": ["gcc", "-I", "relinc", "-c", "ok.c"]}
    else:
        fixed = {"directory": "/r", "file": "ok.c", "arguments": ["gcc", "-I", "/abs/inc", "-c", "ok.c"]}
    e = _entry(kd, dc, fc, ic, P.get("form", "arguments"), ifm)
    db = [e, fixed] if first else [fixed, e]
    STATS["compared"] += 1
    if P.get("_twin"):
        return False
    fs = _fs()
    old = codebasin.CompilationDatabase.from_file
    codebasin.CompilationDatabase.from_file = classmethod(lambda cls, path: cls.from_json(db))
    try:
        # every value that reaches load_database is concrete by now (the symbolic indices were forked on above), so
        # the real code runs untraced per leaf of the decision tree: 7 s -> 0.05 s per path
        with _untraced(), memfs.mounted(fs) as rec:
            try:
                out = config.load_database("/r/compile_commands.json", ROOT)
            except Exception as ex:
                if P.get("_replay"):
                    LAST.update(database=db, exception=repr(ex))
                return False
    finally:
        codebasin.CompilationDatabase.from_file = old
    got = [(x["file"], list(x["include_paths"]), list(x["defines"])) for x in out]
    exp_fixed = ("/r/ok.c", ["/r/relinc"] if nodir else ["/abs/inc"], [])
    exp = []
    if kd == "good":
        ef, ei = ref_paths(dc, fc, [ic])
        if fs.exists(ef):
            exp.append((ef, ei, ["X"]))
    exp = (exp + [exp_fixed]) if first else ([exp_fixed] + exp)
    warns = rec.warnings()
    ok = got == exp
    why = "" if ok else "entries differ"
    if ok and kd in ("missing", "object", "link", "empty-command", "empty-arguments", "blank-command"):
        # skipped with a warning that names the entry's file
        want = "gone.c" if kd == "missing" else e["file"]
        n = len([w for w in warns if want in w])
        if n != 1:
            ok, why = False, "expected exactly one warning naming %r, got %d" % (want, n)
    if ok and kd == "good" and len(exp) == 2 and any("Ignoring" in w or "nsupported" in w for w in warns):
        ok, why = False, "warning for a good entry"
    if P.get("_replay"):
        LAST.update(database=db, entries=got, expected=exp, warnings=warns, why=why)
    return ok


def replay(obd, cex):
    """native re-run, then the unpatched public path: a real compile_commands.json and real files in a scratch root"""
    import json
    import logging
    import os
    import shutil
    import sys
    import tempfile

    mod = sys.modules[__name__]
    mod.P = dict(obd["params"], _twin=False, _replay=True)
    mod.LAST = {}
    args, kw = cex
    try:
        ok = h_db(*args, **kw)
    except Exception as e:
        ok = False
        LAST.update(exception=repr(e))
    detail = dict(LAST)
    if ok is not False:
        return dict(reproduced=False, detail=detail)
    scratch = tempfile.mkdtemp(prefix="vp_c13_")
    try:
        import codebasin.config as config

        fs = _fs()
        fs.materialise(scratch)
        db = json.loads(json.dumps(detail["database"]))
        pre = lambda s: (scratch + s) if isinstance(s, str) and s.startswith("/") else s
        for e in db:
            for k in ("directory", "file"):
                if k in e:
                    e[k] = pre(e[k])
            if "arguments" in e:
                e["arguments"] = [pre(a) for a in e["arguments"]]
            if "command" in e and e["command"]:
                e["command"] = " ".join(pre(a) for a in e["command"].split(" "))
        dbp = os.path.join(scratch, "r", "compile_commands.json")
        with open(dbp, "w") as f:
            json.dump(db, f)
        records = []

        class H(logging.Handler):
            def emit(self, r):
                records.append((r.levelname, r.getMessage()))

        lg = logging.getLogger("codebasin")
        h = H()
        lg.addHandler(h)
        oldcwd = os.getcwd()
        os.chdir(scratch)
        try:
            out = config.load_database(dbp, scratch + ROOT)
            real = os.path.realpath(scratch)
            strip = lambda s: s.replace(real, "").replace(scratch, "")
            got = [(strip(x["file"]), [strip(i) for i in x["include_paths"]], list(x["defines"])) for x in out]
            detail["disk_entries"] = got
            bad = got != [tuple(x) if not isinstance(x, tuple) else x for x in
                          [(a, b, c) for a, b, c in detail.get("expected", [])]]
            if not bad and "warning" in detail.get("why", ""):
                bad = True
                detail["disk_warnings"] = [strip(m) for l, m in records if l == "WARNING"]
        except Exception as e:
            bad = True
            detail["disk_exception"] = repr(e)
        finally:
            os.chdir(oldcwd)
            lg.removeHandler(h)
        return dict(reproduced=bad, detail=detail)
    finally:
        shutil.rmtree(scratch, ignore_errors=True)


def obligations(tier, known):
    obs = []
    forms = ["arguments", "command"]
    for form in forms:
        for k in range(len(KINDS)):
            fid = {2: "C13-unsupported-silent", 3: "C13-unsupported-silent", 4: "C13-unsupported-silent",
                   5: "C13-unsupported-silent", 6: "C13-unsupported-silent"}.get(k)
            expect = "hold"
            if fid and fid in known:
                expect = "witness:" + fid
            if k == 0:
                # the good entry carries all the spelling classes: one obligation per class of `directory`
                for dcl in range(len(DIR_CLASSES)):
                    obs.append(Ob(id="db/%s/%s/dir%d" % (form, KINDS[k], dcl), kind="ch", module=__name__, func="h_db",
                                  params=dict(form=form, fixkind=k, fixdir=dcl), timeout=400, group="db", expect=expect))
                continue
            obs.append(Ob(id="db/%s/%s" % (form, KINDS[k]), kind="ch", module=__name__, func="h_db",
                          params=dict(form=form, fixkind=k), timeout=400, group="db", expect=expect))
    return obs


CLAIM = ("For every combination of the spelling classes of `directory`, `file` and the include directory (-I or -isystem, attached or detached; absolute, relative to the root, relative to "
         "a build directory inside or outside the root, with ./ and ../) the real load_database yields the file and include "
         "directories a compiler running in that directory would use; bad entries are skipped with one warning and do not "
         "disturb their neighbours - confirmed over all paths by CrossHair.")
LEVEL_NOTE = ("Trusted: CrossHair/z3, the POSIX path model (posixpath.normpath/join), vp/memfs.py. Bounded: the listed spelling "
              "classes, 2 entries per database. from_file is bypassed (JSON file reading is not the subject).")
