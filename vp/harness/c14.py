"""C14 - results are deterministic and independent of enumeration order (partial, see LEVEL_NOTE).

What the runtime "happens to do" (hash seeds, readdir order) cannot be a solver variable directly; what can is an
explicit model of unordered iteration.  Inside the harness
  * the name `set` in finder's / report's module globals is bound to a shim whose iteration (and pop) order is a
    permutation selected by a symbolic index,
  * the code base is enumerated in a symbolically chosen order,
  * the platform table and the setmap dictionary are built in a symbolically chosen insertion order.
Postcondition: attribution, the platform-set table, the summary rows *in printed order*, the duplicate groups (as a
set of sets) and the platform labels are identical for every choice.  Metric order-independence over all counts is
an E2 obligation (vp.symreal): every insertion order of the setmap gives the same value as reals.
"""

from __future__ import annotations

import copy
import itertools
from collections import Counter, defaultdict

from vp import memfs, scen
from vp.driver import Ob
from vp.harness import c08

PROPERTY = "C14"
LEVEL = "other"
ENGINE = "crosshair+z3, symreal+z3"
TECHNIQUE = ("symbolic iteration-order model (permutation indices for set iteration, code-base enumeration, platform and dictionary "
             "insertion order) exhausted by CrossHair over the real code; z3 over exact fractions for metric order-independence")
FUNCTIONS = ["codebasin/finder.py:find", "codebasin/finder.py:ParserState.associate/get_setmap", "codebasin/report.py:summary",
             "codebasin/report.py:find_duplicates", "codebasin/report.py:extract_platforms/divergence/coverage/average_coverage",
             "codebasin/report.py:FileTree.Node._platforms_str"]
STUBS = ["finder.set / platform.set / preprocessor.set / report.set -> order-permuting set shim; FakeCodeBase iterates in the chosen order; tabulate captured",
         "hashlib/filecmp/open/Path in report -> in-memory (as in C16)",
         "matplotlib / scipy.cluster.hierarchy / scipy.spatial.distance -> recorders (what clustering() hands to them is compared)"]
ASSUMPTIONS = ["real PYTHONHASHSEED / scandir variation across processes is modelled, not executed",
               "IEEE rounding differences between summation orders: metrics/ proves over exact reals; metrics-float/ re-runs three tables that sit on "
               "rounding boundaries under all modelled orders and compares to the last bit (concrete values, symbolic orders)",
               "once the permutation indices are decided the real code runs untraced on that leaf"]
BOUNDS = {"quick": "find/: 6 scenarios x 6 platform orders x 6 enumeration orders x 6 set-iteration orders; summary/: all insertion orders of "
                   "4-key tables; clustering/: 24 insertion orders x 24 set-iteration orders of three 4-key tables (matplotlib/scipy replaced by recorders); dup/: 4 files, 24 enumeration orders x 6 set orders; metrics/: every insertion order of every 3-key "
                   "shape over 2 platforms and 4-key shapes over 3 platforms, all counts",
          "thorough": "same plus 5-key tables"}
EXPLANATION = ("Iteration orders are explicit symbolic permutation indices; CrossHair exhausts them and the real functions must return "
               "identical results for all of them. For the float metrics, z3 proves over exact fractions that every insertion order of the "
               "table gives the same value for all counts.")

P = {}
STATS = Counter()
LAST = {}
ORDER = [0]


class PermSet(set):
    """a set whose iteration/pop order is the sorted order permuted by ORDER[0]"""

    def _items(self):
        items = sorted(set.__iter__(self), key=str)
        n = len(items)
        k = ORDER[0]
        if n <= 1:
            return items
        if n <= 4:
            perms = list(itertools.permutations(items))
            return list(perms[k % len(perms)])
        r = k % n
        items = items[r:] + items[:r]
        return items[::-1] if (k // n) % 2 else items

    def __iter__(self):
        return iter(self._items())

    def pop(self):
        x = self._items()[0]
        set.remove(self, x)
        return x

    def copy(self):
        return PermSet(set.__iter__(self))


def _perm(seq, k):
    seq = list(seq)
    perms = list(itertools.permutations(seq)) if len(seq) <= 4 else [seq, seq[::-1], seq[1:] + seq[:1]]
    return list(perms[k % len(perms)])


def _find_result(files, cmds, asg, plat_order, enum_order, set_order):
    import codebasin.finder as finder

    fs = scen.build_fs(files)
    members = _perm(sorted(files), enum_order)
    conf_items = {}
    for i, c in enumerate(cmds):
        conf_items.setdefault(c08.PLATS[asg[i]], []).append(c)
    conf = {}
    for p in _perm(sorted(conf_items), plat_order):
        conf[p] = conf_items[p]
    ORDER[0] = set_order
    # every module of the analysis path gets the order-permuting set (a `set()` built in platform.py or preprocessor.py
    # iterates in hash order just like one built in finder.py)
    import codebasin.platform as platform_mod
    import codebasin.preprocessor as preprocessor_mod

    mods = (finder, platform_mod, preprocessor_mod)
    olds = [getattr(m, "set", None) for m in mods]
    for m in mods:
        m.set = PermSet
    try:
        state, _ = scen.run_cbi(fs, conf, members)
        attr, dup = scen.attribution(state)
        with memfs.mounted(fs):
            sm = dict(state.get_setmap(memfs.FakeCodeBase(members)))
    finally:
        for m, old in zip(mods, olds):
            if old is None:
                del m.set
            else:
                m.set = old
    return {p: frozenset(v) for p, v in attr.items()}, {k: v for k, v in sm.items() if v}


def h_find(po: int, eo: int, so: int) -> bool:
    """
    pre: 0 <= po < 6 and 0 <= eo < P["neo"] and 0 <= so < 6
    post: _
    """
    idx = []
    for v, n in ((po, 6), (eo, P["neo"]), (so, 6)):
        for k in range(n):
            if v == k:
                idx.append(k)
    STATS["compared"] += 1
    if P.get("_twin"):
        return False
    why = None
    with scen.untraced():
        files, cmds = c08.TEMPLATES[P["t"]](P.get("dbits", [True, False]))
        asg = P["asg"]
        try:
            base = _find_result(files, cmds, asg, 0, 0, 0)
            got = _find_result(files, cmds, asg, idx[0], idx[1], idx[2])
            if got != base:
                why = "result depends on iteration order: %s vs %s" % (got[1], base[1])
        except Exception as e:
            why = "exception " + repr(e)
    if P.get("_replay"):
        LAST.update(template=P["t"], platform_order=idx[0], enumeration_order=idx[1], set_order=idx[2], why=why)
    return why is None


TABLES = [
    [("A",), ("B",), ("A", "B"), ()],
    [("A",), ("B",), ("C",), ("A", "B", "C")],
    [("A", "B"), ("A", "C"), ("B", "C"), ("D",)],
    [("x10",), ("x9",), ("X1",), ("x10", "x9")],
]


def h_summary(k: int) -> bool:
    """
    pre: 0 <= k < 24
    post: _
    """
    import codebasin.report as report

    kk = None
    for j in range(24):
        if k == j:
            kk = j
    STATS["compared"] += 1
    if P.get("_twin"):
        return False
    why = None
    with scen.untraced():
        keys = TABLES[P["table"]]
        # ties in size AND in line count (P["ties"]) leave nothing but the names to order the rows by
        counts = {keys[0]: 3, keys[1]: 3, keys[2]: 3, keys[3]: 3} if P.get("ties") else {keys[0]: 3, keys[1]: 5, keys[2]: 7, keys[3]: 2}

        def run(order):
            sm = defaultdict(int)
            for key in order:
                sm[frozenset(key)] = counts[key]
            rows = []
            old = report.tabulate

            def fake(data, **kw):
                rows.extend(tuple(r) for r in data)
                return ""

            out = []

            class S:
                def isatty(self):
                    return False

                def write(self, s):
                    out.append(s)

            report.tabulate = fake
            try:
                report.summary(sm, stream=S())
            finally:
                report.tabulate = old
            return rows, [l for l in "".join(out).split("\n") if ":" in l]

        try:
            base = run(keys)
            got = run(_perm(keys, kk))
            if got != base:
                why = "summary rows/lines depend on the insertion order of the table: %s vs %s" % (got[0], base[0])
        except Exception as e:
            why = "exception " + repr(e)
    if P.get("_replay"):
        LAST.update(table=TABLES[P["table"]], insertion_order=kk, why=why)
    return why is None


def _squareform(m):
    """scipy.spatial.distance.squareform for plain lists, both directions: a square matrix becomes the condensed
    vector (upper triangle, row-major); a condensed vector becomes the symmetric matrix with a zero diagonal"""
    m = list(m)
    if m and isinstance(m[0], (list, tuple)):
        n = len(m)
        return [m[i][j] for i in range(n) for j in range(i + 1, n)]
    n = 1
    while n * (n - 1) // 2 < len(m):
        n += 1
    if n * (n - 1) // 2 != len(m):
        raise ValueError("not a condensed distance vector")
    out = [[0.0] * n for _ in range(n)]
    k = 0
    for i in range(n):
        for j in range(i + 1, n):
            out[i][j] = out[j][i] = m[k]
            k += 1
    return out


def _linkage_entry(m, n, i, j):
    """the distance of observations i, j in what was handed to hierarchy.linkage (condensed vector or square matrix)"""
    m = list(m)
    if m and isinstance(m[0], (list, tuple)):
        return m[i][j]
    if i == j:
        return 0.0
    a, b = min(i, j), max(i, j)
    return m[n * a - a * (a + 1) // 2 + (b - a - 1)]


def h_cluster(k: int, so: int) -> bool:
    """
    pre: 0 <= k < 24 and 0 <= so < 24
    post: _
    """
    import sys
    import types

    import codebasin.report as report

    kk = ss = None
    for j in range(24):
        if k == j:
            kk = j
        if so == j:
            ss = j
    STATS["compared"] += 1
    if P.get("_twin"):
        return False
    why = None
    with scen.untraced():
        keys = TABLES[P["table"]]
        counts = {keys[0]: 3, keys[1]: 5, keys[2]: 7, keys[3]: 2}

        def run(order, set_order):
            sm = defaultdict(int)
            for key in order:
                sm[frozenset(key)] = counts[key]
            cap = {}

            def fake_tab(data, headers=(), **kw):
                cap["rows"] = [tuple(r) for r in data]
                cap["headers"] = list(headers)
                return ""

            # matplotlib / scipy are replaced by recorders: what is handed to them is the observation
            mpl = types.ModuleType("matplotlib")
            mpl.use = lambda *a, **k: None
            mpl.rcParams = {}
            plt = types.ModuleType("matplotlib.pyplot")

            class _Any:
                def __getattr__(self, n):
                    return lambda *a, **k: _Any()

                def __getitem__(self, i):
                    return 0.0

                def __enter__(self):
                    return self

                def __exit__(self, *a):
                    return False

            class _Util:
                ensure_ext = staticmethod(lambda *a, **k: None)
                safe_open_write_binary = staticmethod(lambda name: _Any())  # nothing is written

            plt.subplots = lambda *a, **k: (_Any(), _Any())
            plt.savefig = lambda *a, **k: None
            plt.xlabel = plt.ylabel = plt.legend = plt.title = plt.tight_layout = plt.close = lambda *a, **k: None
            mpl.pyplot = plt
            sc = types.ModuleType("scipy")
            scc = types.ModuleType("scipy.cluster")
            hier = types.ModuleType("scipy.cluster.hierarchy")
            hier.linkage = lambda m, method=None: cap.setdefault("linkage", m)
            hier.dendrogram = lambda c, labels=None, **k: cap.setdefault("labels", list(labels))
            scc.hierarchy = hier
            scs = types.ModuleType("scipy.spatial")
            scd = types.ModuleType("scipy.spatial.distance")
            scd.squareform = _squareform
            scs.distance = scd
            mods = {"matplotlib": mpl, "matplotlib.pyplot": plt, "scipy": sc, "scipy.cluster": scc, "scipy.cluster.hierarchy": hier,
                    "scipy.spatial": scs, "scipy.spatial.distance": scd}
            saved = {m: sys.modules.get(m) for m in mods}
            sys.modules.update(mods)
            old_tab, old_set, old_util = report.tabulate, getattr(report, "set", None), report.util
            report.tabulate = fake_tab
            report.util = _Util
            report.set = PermSet
            ORDER[0] = set_order

            class S:
                def isatty(self):
                    return False

                def write(self, s):
                    pass

            try:
                report.clustering("out.png", sm, stream=S())
            finally:
                report.tabulate = old_tab
                report.util = old_util
                if old_set is None:
                    del report.set
                else:
                    report.set = old_set
                for m, v in saved.items():
                    if v is None:
                        sys.modules.pop(m, None)
                    else:
                        sys.modules[m] = v
            return cap, sm

        try:
            base, sm = run(keys, 0)
            got, _sm = run(_perm(keys, kk), ss)
            names = sorted({p for key in keys for p in key})
            if got != base:
                why = "clustering output depends on the iteration / insertion order: %s vs %s" % (got, base)
            elif got.get("headers") != names or [r[0] for r in got["rows"]] != names or got.get("labels") != names:
                why = "row / column / leaf labels are not the sorted platform names: %s" % (got,)
            else:
                # every cell, and every entry handed to the linkage, is the distance of the pair its labels name
                for i, a in enumerate(names):
                    for j, b in enumerate(names):
                        d = report.distance(sm, a, b)
                        if got["rows"][i][1 + j] != "%.2f" % d or _linkage_entry(got["linkage"], len(names), i, j) != d:
                            why = "cell (%s,%s) is not distance(%s,%s)" % (a, b, a, b)
        except Exception as e:
            why = "exception " + repr(e)
    if P.get("_replay"):
        LAST.update(table=TABLES[P["table"]], insertion_order=kk, set_order=ss, why=why)
    return why is None


# tables whose metric values sit on a rounding boundary: a different order of the floating-point additions changes the
# last bit, and with it the two printed decimals (found by a seeding agent's search; exact reals - metrics/ - cannot see it)
FLOAT_TABLES = [
    [(("a",), 8), (("b",), 25), (("c",), 40), (("a", "b"), 0), (("b", "c"), 33), (("a", "c"), 30), (("a", "b", "c"), 24)],
    [(("a",), 13), (("b",), 2), (("a", "c"), 51), (("b", "c"), 42), (("a", "b"), 52)],
    [(("a",), 1), (("b",), 1), (("c",), 1), (("a", "b"), 3), (("d",), 7), (("c", "d"), 3)],
]


def h_float(k: int, so: int) -> bool:
    """
    pre: 0 <= k < 24 and 0 <= so < 24
    post: _
    """
    import codebasin.report as report

    kk = ss = None
    for j in range(24):
        if k == j:
            kk = j
        if so == j:
            ss = j
    STATS["compared"] += 1
    if P.get("_twin"):
        return False
    why = None
    with scen.untraced():
        items = FLOAT_TABLES[P["table"]]

        def run(order_idx, set_order):
            n = len(items)
            r = order_idx % n
            seq = items[r:] + items[:r]
            if (order_idx // n) % 2:
                seq = seq[::-1]
            sm = defaultdict(int)
            for key, v in seq:
                sm[frozenset(key)] = v
            old = getattr(report, "set", None)
            report.set = PermSet
            ORDER[0] = set_order
            try:
                names = sorted({p for key, _v in items for p in key})
                return (repr(report.divergence(sm)), repr(report.average_coverage(sm)), repr(report.coverage(sm)),
                        [repr(report.distance(sm, a, b)) for a in names for b in names])
            finally:
                if old is None:
                    del report.set
                else:
                    report.set = old

        try:
            base = run(0, 0)
            got = run(kk, ss)
            if got != base:
                why = "metric values (to the last bit) depend on the iteration / insertion order: %s vs %s" % (got[:3], base[:3])
        except Exception as e:
            why = "exception " + repr(e)
    if P.get("_replay"):
        LAST.update(table=FLOAT_TABLES[P["table"]], insertion_order=kk, set_order=ss, why=why)
    return why is None


def h_dup(eo: int, so: int) -> bool:
    """
    pre: 0 <= eo < 24 and 0 <= so < 6
    post: _
    """
    import io

    import codebasin.report as report
    from vp.harness import c16

    idx = []
    for v, n in ((eo, 24), (so, 6)):
        for k in range(n):
            if v == k:
                idx.append(k)
    STATS["compared"] += 1
    if P.get("_twin"):
        return False
    why = None
    with scen.untraced():
        content = {"/r/f0.c": b"abc", "/r/f1.c": b"abc", "/r/d/f2.c": b"abd", "/r/d/f3.h": b"abc"}

        class FP(memfs.make_path_class(memfs.MemFS("/r"))):
            def is_symlink(self):
                return False

        class H:
            @staticmethod
            def file_digest(f, algo):
                return c16._Digest(1)  # one bucket: the confirmation loop has to do all the work

        class FC:
            @staticmethod
            def cmp(a, b, shallow=True):
                return content[str(a)] == content[str(b)]

        def run(e, s_):
            ORDER[0] = s_
            saved = (report.Path, report.hashlib, report.filecmp, getattr(report, "open", None), getattr(report, "set", None))
            report.Path, report.hashlib, report.filecmp = FP, H, FC
            report.open = lambda p, mode="r": io.BytesIO(content[str(p)])
            report.set = PermSet
            try:
                got = report.find_duplicates(memfs.FakeCodeBase(_perm(sorted(content), e)))
            finally:
                report.Path, report.hashlib, report.filecmp = saved[:3]
                for name, val in (("open", saved[3]), ("set", saved[4])):
                    if val is None:
                        delattr(report, name)
                    else:
                        setattr(report, name, val)
            return {frozenset(str(p) for p in g) for g in got}

        try:
            base = run(0, 0)
            got = run(idx[0], idx[1])
            if got != base or base != {frozenset(["/r/f0.c", "/r/f1.c", "/r/d/f3.h"])}:
                why = "duplicate groups depend on iteration order: %s vs %s" % (sorted(map(sorted, got)), sorted(map(sorted, base)))
        except Exception as e:
            why = "exception " + repr(e)
    if P.get("_replay"):
        LAST.update(enumeration_order=idx[0], set_order=idx[1], why=why)
    return why is None


# --------------------------------------------------------------------------
# modes/: the compiler emulation keeps the active modes and passes in sets; two modes that define the same macro (or add
# include directories holding the same header) make the order in which they are applied observable

MODES_DEFN = {
    "parser": [
        {"flags": ["-ma"], "action": "append_const", "dest": "modes", "const": "ma"},
        {"flags": ["-mb"], "action": "append_const", "dest": "modes", "const": "mb"},
        {"flags": ["-mc"], "action": "append_const", "dest": "modes", "const": "mc"},
        {"flags": ["-fpass"], "action": "store_split", "sep": ",", "format": "p_$value", "dest": "passes"},
    ],
    "modes": [
        {"name": "ma", "defines": ["X=1"], "include_paths": ["/r/ia"]},
        {"name": "mb", "defines": ["X=2"], "include_paths": ["/r/ib"]},
        {"name": "mc", "defines": ["X=3"]},
    ],
    "passes": [
        {"name": "p_u", "defines": ["PU"], "modes": ["mb", "ma"]},
        {"name": "p_v", "defines": ["PV"], "modes": ["mc", "ma"]},
    ],
}
MODES_ARGV = [["-ma", "-mb", "k.c"], ["-mb", "-ma", "-mc", "k.c"], ["-mc", "-ma", "-fpass=u,v", "k.c"], ["-ma", "-mb", "-ma", "-fpass=v", "k.c"]]
MODES_FILES = {
    "/r/k.c": ["#include <h.h>", "#if X == 1", "@", "#elif X == 2", "@", "#elif X == 3", "@", "#else", "@", "#endif", "#ifdef IA", "@", "#endif",
               "#ifdef IB", "@", "#endif", "#ifdef PU", "@", "#endif"],
    "/r/ia/h.h": ["#define IA", "@"],
    "/r/ib/h.h": ["#define IB", "@"],
}


def _modes_result(argv, set_order):
    import codebasin.config as config
    from vp.harness import c12

    ORDER[0] = set_order
    table = {"cc": config._Compiler.from_toml(copy.deepcopy(MODES_DEFN))}
    old = getattr(config, "set", None)
    config.set = PermSet
    try:
        cfgs, rec = c12._run(config, table, "cc", argv)
    finally:
        if old is None:
            del config.set
        else:
            config.set = old
    ORDER[0] = 0
    # observable result: every pass becomes one compile command of a platform named after the pass, plus one platform
    # that has all of them in the order parse_args returned them
    conf = {"all": []}
    for c in cfgs:
        e = scen.entry("/r/k.c", c.defines, c.include_paths, c.include_files)
        conf.setdefault("pass:" + c.pass_name, []).append(e)
        conf["all"].append(e)
    fs = scen.build_fs(MODES_FILES)
    state, _ = scen.run_cbi(fs, conf, sorted(MODES_FILES))
    attr, dup = scen.attribution(state)
    return {p: frozenset(v) for p, v in attr.items()}, sorted(c.pass_name for c in cfgs)


def h_modes(so: int) -> bool:
    """
    pre: 0 <= so < 24
    post: _
    """
    idx = None
    for k in range(24):
        if so == k:
            idx = k
    STATS["compared"] += 1
    if P.get("_twin"):
        return False
    why = None
    with scen.untraced():
        argv = MODES_ARGV[P["argv"]]
        try:
            base = _modes_result(argv, 0)
            got = _modes_result(argv, idx)
            if got != base:
                diff = sorted(p for p in set(got[0]) | set(base[0]) if got[0].get(p) != base[0].get(p))
                why = "attribution depends on the iteration order of the mode/pass sets: platforms %s differ" % diff
        except Exception as e:
            why = "exception " + repr(e)
    if P.get("_replay"):
        LAST.update(argv=argv, set_order=idx, why=why)
    return why is None


def check_metrics(params):
    """E2: every insertion order of the table gives the same metric value, for all counts"""
    import time

    import z3

    from vp import symreal as sr
    from vp.harness import c07

    report = c07._report()
    sr.Stats.queries = 0
    sr.Stats.solver_s = 0.0
    t0 = time.process_time()
    case = c07._Case(report, params["P"], params["shape"])
    keys = list(case.c)
    bad, unknown, n = [], [], 0
    fns = [("coverage", lambda sm: report.coverage(sm)), ("average_coverage", lambda sm: report.average_coverage(sm)),
           ("divergence", lambda sm: report.divergence(sm))]
    if params["P"] >= 2:
        fns.append(("distance", lambda sm: report.distance(sm, "A", "B")))

    def mk(order):
        return {k: sr.Sym(case.c[k], z3.RealVal(1)) for k in order}

    perms = list(itertools.permutations(keys))
    for name, f in fns:
        try:
            l1 = sr.explore(lambda: f(mk(perms[0])), case.base)
            for pm in perms[1:]:
                l2 = sr.explore(lambda: f(mk(pm)), case.base)
                for a in l1:
                    for b in l2:
                        pc = a.pc + b.pc
                        if sr._check(pc)[0] == "unsat":
                            continue
                        n += 1
                        if a.kind != b.kind:
                            bad.append(dict(check=name, order=[sorted(k) for k in pm], kinds=[a.kind, b.kind]))
                        elif a.kind == "num":
                            r, model = sr.prove(pc, a.value.num * b.value.den == b.value.num * a.value.den)
                            if r == "sat":
                                bad.append(dict(check=name, order=[sorted(k) for k in pm], counts=c07._model_counts(case, model)))
                            elif r != "unsat":
                                unknown.append(name)
        except sr.Inconclusive as e:
            unknown.append(name + ": " + str(e))
    res = dict(paths=0, queries=sr.Stats.queries, solver_s=sr.Stats.solver_s, cpu_s=time.process_time() - t0, compared=n,
               sample=dict(shape=params["shape"], orders=len(perms)))
    if bad:
        res.update(verdict="refuted", cex=bad[:3], multi=True, detail="%d order-dependent leaves" % len(bad))
    elif unknown:
        res.update(verdict="inconclusive", detail="; ".join(unknown[:3]))
    else:
        res.update(verdict="discharged", detail="all insertion orders agree")
    return res


def replay(obd, cex):
    import sys

    mod = sys.modules[__name__]
    if obd["kind"] == "fn":
        # metric witness: evaluate the real function natively on both orders
        import importlib

        import codebasin.report as report

        importlib.reload(report)
        counts = cex.get("counts")
        if not counts:
            return dict(reproduced=True, detail=cex)
        keys = [frozenset(k) for k in obd["params"]["shape"]]
        from vp.harness import c07

        base = {k: counts[c07._keyname(k)] for k in keys}
        other = {frozenset(k): counts[c07._keyname(frozenset(k))] for k in cex["order"]}
        f = getattr(report, cex["check"])
        a = f(base, "A", "B") if cex["check"] == "distance" else f(base)
        b = f(other, "A", "B") if cex["check"] == "distance" else f(other)
        same = (a != a and b != b) or abs(a - b) < 1e-12
        return dict(reproduced=not same, detail=dict(cex, a=repr(a), b=repr(b)))
    mod.P = dict(obd["params"], _twin=False, _replay=True)
    mod.LAST = {}
    args, kw = cex
    try:
        ok = getattr(mod, obd["func"])(*args, **kw)
    except Exception as e:
        ok = False
        LAST.update(exception=repr(e))
    return dict(reproduced=(ok is False), detail=dict(LAST))


def obligations(tier, known):
    obs = []
    for t, asg, db in (("shared_define", [0, 1, 2], None), ("inc_paths", [0, 0, 1], None), ("same_file_inc", [0, 1, 2], None),
                       ("same_file_inc", [2, 0, 0], None),
                       # one command with two -I directories that both hold the header: the search order is the command's
                       ("same_file_inc", [0, 1, 2], [False, True]), ("same_file_inc", [0, 1, 1], [False, False])):
        params = dict(t=t, asg=asg, neo=6)
        if db is not None:
            params["dbits"] = db
        obs.append(Ob(id="find/%s/%s%s" % (t, "".join(map(str, asg)), "" if db is None else "-d%d%d" % tuple(db)), kind="ch", module=__name__,
                      func="h_find", params=params, timeout=600, group="find"))
    for i in range(len(TABLES)):
        expect = "witness:C14-summary-order" if "C14-summary-order" in known else "hold"
        for ties in (False, True):
            obs.append(Ob(id="summary/table%d%s" % (i, "-ties" if ties else ""), kind="ch", module=__name__, func="h_summary",
                          params=dict(table=i, ties=ties), timeout=200, group="summary", expect=expect))
    for i in (1, 2, 3):
        obs.append(Ob(id="clustering/table%d" % i, kind="ch", module=__name__, func="h_cluster", params=dict(table=i), timeout=400,
                      group="clustering"))
    for i in range(len(FLOAT_TABLES)):
        obs.append(Ob(id="metrics-float/table%d" % i, kind="ch", module=__name__, func="h_float", params=dict(table=i), timeout=300,
                      group="metrics"))
    obs.append(Ob(id="dup/orders", kind="ch", module=__name__, func="h_dup", params={}, timeout=300, group="dup"))
    for i in range(len(MODES_ARGV)):
        obs.append(Ob(id="modes/argv%d" % i, kind="ch", module=__name__, func="h_modes", params=dict(argv=i), timeout=300, group="modes"))
    from vp.harness import c07

    shapes = [(2, s) for s in c07._shapes(2) if len(s) == 3] + [(3, s) for s in c07._shapes(3) if len(s) == 4][:: (6 if tier == "quick" else 2)]
    for Pn, shape in shapes:
        sid = ",".join(c07._keyname(k) for k in shape)
        obs.append(Ob(id="metrics/P%d:%s" % (Pn, sid), kind="fn", module=__name__, func="check_metrics",
                      params=dict(P=Pn, shape=[sorted(k) for k in shape]), twin=False, timeout=300, group="metrics"))
    return obs


CLAIM = ("Under an explicit model of unordered iteration (set iteration/pop order, code-base enumeration order, platform order, dictionary "
         "insertion order - all symbolic permutation indices) the attribution, platform-set table, summary rows in printed order, the labelled distance matrix "
         "(table, linkage input, dendrogram labels) and duplicate groups are identical for every order within the bound, and the metrics are order-independent for all counts (z3).")
LEVEL_NOTE = ("PARTIAL: the property quantifies over what separate interpreter processes do (hash randomisation, readdir order); that is "
              "modelled by permuting iteration order inside one process, not executed. Trusted: the order model (which names are shimmed), "
              "CrossHair/z3. Outside: IEEE summation-order effects beyond the three boundary tables of metrics-float/, the dendrogram, cross-process behaviour as such.")
