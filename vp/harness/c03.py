"""C03 - macro definition and expansion conform to the C standard (small bound: see LEVEL_NOTE).

expand/  macro tables {F function-like, G, H} whose head, body items and the invocation are bounded symbolic indices:
         token spellings of the real MacroExpander(platform).expand(tokens) == Prosser's algorithm (vp.refs.ref_macro);
         no exception; termination
defs/    the -D spelling through macro_from_definition_string and the #define spelling through DirectiveParser give
         macros with equal name / parameters / replacement
ifk/     truth value of `#if M(args) == k` through the real IfNode.evaluate_for_platform for k in 0..8
"""

from __future__ import annotations

from collections import Counter

from vp import scen
from vp.driver import Ob
from vp.refs import ref_cpp, ref_expr, ref_macro

PROPERTY = "C03"
LEVEL = "other"
ENGINE = "crosshair+z3"
TECHNIQUE = "CrossHair-enumerated symbolic table/invocation indices over the real macro expander against Prosser's hide-set algorithm"
FUNCTIONS = ["codebasin/preprocessor.py:MacroExpander.expand", "codebasin/preprocessor.py:MacroFunction.replace",
             "codebasin/preprocessor.py:Macro.preproc_replacement", "codebasin/preprocessor.py:Lexer.stringify",
             "codebasin/preprocessor.py:StringConstant.sanitized_str", "codebasin/preprocessor.py:macro_from_definition_string",
             "codebasin/preprocessor.py:DirectiveParser.define", "codebasin/preprocessor.py:IfNode.evaluate_for_platform"]
STUBS = []
ASSUMPTIONS = [
    "tables and invocations a conforming preprocessor diagnoses (wrong argument count, ## giving an invalid token, # without a "
    "parameter, unbalanced parentheses) are outside the property",
    "the technique has little purchase here: inputs are token sequences, not values; every leaf is a concrete run of the real "
    "expander chosen by solver-enumerated indices (untraced once the indices are decided)",
]
BOUNDS = {"quick": "5 heads of F x 8^2 body items x 4 definitions of G x 2 of H x 12 invocations",
          "thorough": "5 heads x 18^2 (and 10^3) body items x 9 G x 3 H x 21 invocations"}
EXPLANATION = ("Head, body items, auxiliary macro bodies and the invocation are bounded symbolic indices exhausted by CrossHair; on every "
               "leaf the token spellings produced by the real expander are compared with the published hide-set algorithm.")

P = {}
STATS = Counter()
LAST = {}

HEADS = [("F()", []), ("F(x)", ["x"]), ("F(x,y)", ["x", "y"]), ("F(x,...)", ["x", "__VA_ARGS__"]), ("F(...)", ["__VA_ARGS__"]),
         ("F(x,rest...)", ["x", "__VA_ARGS__"])]
# GNU named variable arguments: CBI sees the name, the reference the alpha-equivalent __VA_ARGS__ form (thorough tier)
NAMED = {"F(x,rest...)": "rest"}
ITEMS = ["x", "1", "+", "G", "y", "#x", "x##y", "x##1", "__VA_ARGS__", "H",
         "1##x", "#__VA_ARGS__", "F", "(", ")", ",", "F(x)", "y##__VA_ARGS__", "x##y##1", "#y"]
# ("G", "G 1"): a self-referential object-like macro whose painted name is the first token of a pre-expanded argument
# (an extra expansion of `#define G G` would be invisible)
GDEFS = [("G", "F"), ("G", "1"), ("G(y)", "F(y)"), ("G", "H"), ("G", "G 1"), ("G", "F(H)"), ("G", "G"), ("G(y)", "y H"), ("G", "x"), ("G(y)", "y")]
HDEFS = [("H", "2"), ("H", "G"), ("H", "x##1 F")]
INVS = ["F(1)", "F(1,2)", "F()", "F(G)", "F(F(1))", "F(1)(2)", "F (1,2,3)", "F", "F(H,G)", "G(3)", "H(F)(1)", "F((1,2),3)",
        "F(,)", "G", "F(F)(2)", "F(a b, c)", 'F("s")', "F(G(3))", "G(F)(1)", "H", "F(1,G(2),H)",
        "F(1,)", "F( 1 )", "F(1 , 2 , 3)", "F(,x)", "F(,,)", "F('a')", 'F("a\\n", \'\\0\')']


def _lex_body(text):
    return ref_cpp.lex(text)


def _ref_table(head, body_text, gdef, hdef):
    ms = {}
    hname, params = head
    ms["F"] = ref_macro.MacroDef("F", list(params), _lex_body(body_text), variadic=bool(params) and params[-1] == "__VA_ARGS__")
    for (h, b) in (gdef, hdef):
        if "(" in h:
            ms[h[0]] = ref_macro.MacroDef(h[0], ["y"], _lex_body(b))
        else:
            ms[h] = ref_macro.MacroDef(h, None, _lex_body(b))
    return ms


def _cbi_platform(defs):
    import codebasin.preprocessor as pp
    from codebasin.platform import Platform

    plat = Platform("p", "/r")
    for head, body in defs:
        node = pp.DirectiveParser(pp.Lexer("#define %s %s" % (head, body)).tokenize()).parse()
        macro = pp.make_macro(node.identifier, node.args, node.value)
        plat.define(node.identifier.token, macro)
    return plat


def _spell(toks):
    # (str() of a CharacterConstant is its value without the quotes)
    return ["'%s'" % t.token if type(t).__name__ == "CharacterConstant" else str(t) for t in toks]


def _pre(i1, i2, i3, g, h):
    n = P["nitems"]
    return 0 <= i1 < n and 0 <= i2 < n and 0 <= g < P["ng"] and 0 <= h < P["nh"] and (0 <= i3 < n if P["three"] else i3 == 0)


def h_expand(i1: int, i2: int, i3: int, g: int, h: int) -> bool:
    """
    pre: _pre(i1, i2, i3, g, h)
    post: _
    """
    idx = []
    for v, n in ((i1, len(ITEMS)), (i2, len(ITEMS)), (i3, len(ITEMS)), (g, len(GDEFS)), (h, 3)):
        for k in range(n):
            if v == k:
                idx.append(k)
    why = None
    with scen.untraced():
        import codebasin.preprocessor as pp

        head = HEADS[P["head"]]
        sel = P.get("items") or list(range(len(ITEMS)))
        items = [ITEMS[sel[idx[0]]], ITEMS[sel[idx[1]]]] + ([ITEMS[sel[idx[2]]]] if P["three"] else [])
        body = " ".join(items)
        cbi_body = body.replace("__VA_ARGS__", NAMED[head[0]]) if head[0] in NAMED else body
        gdef, hdef = GDEFS[idx[3]], HDEFS[idx[4]]
        inv = INVS[P["inv"]]
        try:
            table = _ref_table(head, body, gdef, hdef)
            exp = ref_macro.expand_spellings(ref_macro.lex_ws(inv), table)
        except ref_macro.Invalid:
            return True
        for fid in P.get("regions", []):
            if _region(fid, head, body, gdef, hdef, inv):
                return True
        w = P.get("witness")
        if w and not _region(w, head, body, gdef, hdef, inv):
            return True
        STATS["compared"] += 1
        if P.get("_twin"):
            return False
        try:
            plat = _cbi_platform([(head[0], cbi_body), gdef, hdef])
            toks = pp.Lexer(inv).tokenize()
            got = _spell(pp.MacroExpander(plat).expand(toks))
            if got != exp:
                why = "expansion %s != %s" % (got, exp)
        except Exception as e:
            why = "exception " + repr(e)
    if P.get("_replay"):
        LAST.update(defines=["%s %s" % (head[0], cbi_body), "%s %s" % gdef, "%s %s" % hdef], invocation=inv, expected=exp, why=why)
    return why is None


def _region(fid, head, body, gdef, hdef, inv):
    if fid == "C03-rescan-following-source":
        # decided by the reference: during expansion a function-like macro name that was produced by an expansion
        # is invoked with an argument list taken from the source tokens after it
        del ref_macro.EVENTS[:]
        try:
            ref_macro.expand_spellings(ref_macro.lex_ws(inv), _ref_table(head, body, gdef, hdef))
        except ref_macro.Invalid:
            return False
        return any(e[0] == "rescan-with-following-source" for e in ref_macro.EVENTS)
    return False


# ---- -D vs #define -----------------------------------------------------------------

# (-D string, text after "#define ") pairs that must give the same macro
DEFS = [("A", "A 1"), ("A=", "A"), ("A=1", "A 1"), ("A=x + 1", "A x + 1"), ("F(x)=x * 2", "F(x) x * 2"), ("F(x,y)=x ## y", "F(x,y) x ## y"),
        ("F(x,...)=x __VA_ARGS__", "F(x,...) x __VA_ARGS__"), ("F(...)=#__VA_ARGS__", "F(...) #__VA_ARGS__"), ("F()=7", "F() 7"),
        ('S="a b"', 'S "a b"'), ("F(x)=#x", "F(x) #x"), ("A=(1 << 3)", "A (1 << 3)"), ("A=B C", "A B C"), ("F(x)=", "F(x)"),
        ("A=a=b", "A a=b"), ("A==1", "A =1"), ("F(x, y)=x+y", "F(x, y) x+y"), ("A= 1", "A 1"), ("A=-1", "A -1"), ("A=1==1", "A 1==1")]


def h_defs(i: int) -> bool:
    """
    pre: 0 <= i < len(DEFS)
    post: _
    """
    k = None
    for j in range(len(DEFS)):
        if i == j:
            k = j
    STATS["compared"] += 1
    if P.get("_twin"):
        return False
    why = None
    with scen.untraced():
        import codebasin.preprocessor as pp

        dstring, dtext = DEFS[k]
        try:
            m1 = pp.macro_from_definition_string(dstring)
            node = pp.DirectiveParser(pp.Lexer("#define " + dtext).tokenize()).parse()
            m2 = pp.make_macro(node.identifier, node.args, node.value)
            a1 = getattr(m1, "args", None)
            a2 = getattr(m2, "args", None)
            if (m1.name, a1, _spell(m1.replacement), type(m1)) != (m2.name, a2, _spell(m2.replacement), type(m2)):
                why = "-D gives %s, #define gives %s" % ((m1.name, a1, _spell(m1.replacement)), (m2.name, a2, _spell(m2.replacement)))
        except Exception as e:
            why = "exception " + repr(e)
    if P.get("_replay"):
        LAST.update(definition=DEFS[k], why=why)
    return why is None


# ---- literals whose body looks like a punctuator or operator ---------------------------

LIT_BODIES = ["((x) == '#')", 'x "#"', '"##" x', "x ',' 1", "'(' x ')'", "#x '#'", 'x ## 1 "##"', "x"]
LIT_INVS = ["F(',')", "F('(')", "F(')')", 'F(",")', 'F(")" "(")', "F('#')", "F(1)", "F (')', '(') 2", 'F("a,b") + F(\'"\')',
            "G F('(') )", 'F("C:\\\\") x']


def h_lits(b: int, v: int) -> bool:
    """
    pre: 0 <= b < len(LIT_BODIES) and 0 <= v < len(LIT_INVS)
    post: _
    """
    bi = vi = None
    for j in range(len(LIT_BODIES)):
        if b == j:
            bi = j
    for j in range(len(LIT_INVS)):
        if v == j:
            vi = j
    why = None
    with scen.untraced():
        import codebasin.preprocessor as pp

        defs = [("F(x)", LIT_BODIES[bi]), ("G", "[")]
        inv = LIT_INVS[vi]
        try:
            table = {"F": ref_macro.MacroDef("F", ["x"], _lex_body(LIT_BODIES[bi])), "G": ref_macro.MacroDef("G", None, ["["])}
            exp = ref_macro.expand_spellings(ref_macro.lex_ws(inv), table)
        except ref_macro.Invalid:
            return True
        STATS["compared"] += 1
        if P.get("_twin"):
            return False
        try:
            plat = _cbi_platform(defs)
            got = _spell(pp.MacroExpander(plat).expand(pp.Lexer(inv).tokenize()))
            if got != exp:
                why = "expansion %s != %s" % (got, exp)
        except Exception as e:
            why = "exception " + repr(e)
    if P.get("_replay"):
        LAST.update(defines=["%s %s" % d for d in defs], invocation=inv, expected=exp, why=why)
    return why is None


NAMES = ["None", "True", "False", "self", "ident", "str", "defined_", "__class__", "tokens", "_", "x", "NULL", "nan", "inf", "e1", "L", "u8"]


def h_names(i: int) -> bool:
    """
    pre: 0 <= i < len(NAMES)
    post: _
    """
    k = None
    for j in range(len(NAMES)):
        if i == j:
            k = j
    STATS["compared"] += 1
    if P.get("_twin"):
        return False
    why = None
    with scen.untraced():
        import codebasin.preprocessor as pp

        try:
            # an object-like and a function-like macro of that name: the identifier's spelling must not matter
            plat = _cbi_platform([(NAMES[k], "1"), ("W(%s)" % NAMES[k], "%s + 2" % NAMES[k])])
            got = _spell(pp.MacroExpander(plat).expand(pp.Lexer("%s + W(3)" % NAMES[k]).tokenize()))
            if got != ["1", "+", "3", "+", "2"]:
                why = "expansion %s != ['1', '+', '3', '+', '2']" % got
        except Exception as e:
            why = "exception " + repr(e)
    if P.get("_replay"):
        LAST.update(name=NAMES[k], why=why)
    return why is None


IFK = [(["F(x,y) x+y"], "F(1,2)"), (["F(x) x*x", "G 3"], "F(G)"), (["F(x,...) x __VA_ARGS__"], "F(1,+2)"), (["F(x,y) x##y"], "F(1,2) - 10"),
       (["G(y) (y) + H", "H 2"], "G(1) * 2"), (["F() 4"], "F() + F()"), (["F(x) (x)+1", "Q 2"], "F(Q) + F(0)"), (["N 4"], "N/2 + N%3")]


def h_ifk(t: int, k: int) -> bool:
    """
    pre: 0 <= t < 8 and 0 <= k < 9
    post: _
    """
    ti = ki = None
    for j in range(8):
        if t == j:
            ti = j
    for j in range(9):
        if k == j:
            ki = j
    STATS["compared"] += 1
    if P.get("_twin"):
        return False
    why = None
    with scen.untraced():
        import codebasin.preprocessor as pp

        defs, expr = IFK[ti]
        text = "%s == %d" % (expr, ki)
        fs = scen.build_fs({"/r/m.c": ["#define " + d for d in defs] + ["#if " + text, "@", "#endif"]})
        try:
            tu = ref_cpp.TU(fs, [], [])
            raise_if = None
        except Exception as e:
            raise_if = e
        try:
            # reference: function-like macros through ref_macro, then ISO C arithmetic
            ms = {}
            for d in defs:
                hd, _, bd = d.partition(" ")
                if "(" in hd:
                    ps = [x.strip() for x in hd[hd.index("(") + 1:-1].split(",") if x.strip()]
                    var = bool(ps) and ps[-1] == "..."
                    if var:
                        ps[-1] = "__VA_ARGS__"
                    ms[hd[:hd.index("(")]] = ref_macro.MacroDef(hd[:hd.index("(")], ps, ref_cpp.lex(bd), var)
                else:
                    ms[hd] = ref_macro.MacroDef(hd, None, ref_cpp.lex(bd))
            toks = ref_macro.lex_ws(text)
            # `defined` operands are not expanded: none of the expressions uses it outside a macro body except IFK[6]
            sp = ref_macro.expand_spellings(toks, ms)
            out = []
            j = 0
            while j < len(sp):
                if sp[j] == "defined":
                    name = sp[j + 2] if sp[j + 1] == "(" else sp[j + 1]
                    out.append(ref_expr.CVal(False, 1 if name in ms else 0))
                    j += 4 if sp[j + 1] == "(" else 2
                elif sp[j][0].isdigit():
                    out.append(ref_expr.literal(sp[j]))
                    j += 1
                else:
                    out.append(sp[j])
                    j += 1
            exp = ref_expr.evaluate(out).v != 0
            plat = _cbi_platform([(d.partition(" ")[0], d.partition(" ")[2]) for d in defs])
            toks2 = pp.Lexer(text).tokenize()
            got = bool(pp.IfNode(list(toks2), list(toks2)).evaluate_for_platform(platform=plat, filename="/r/m.c", state=None))
            if got != exp:
                why = "#if %s -> %s, expected %s" % (text, got, exp)
        except Exception as e:
            why = "exception " + repr(e)
    if P.get("_replay"):
        LAST.update(defines=IFK[ti][0], expression="%s == %d" % (IFK[ti][1], ki), why=why)
    return why is None


def replay(obd, cex):
    """native re-run, then gcc -E -P on the same definitions and invocation must agree with the reference"""
    import os
    import shutil
    import subprocess
    import sys
    import tempfile

    mod = sys.modules[__name__]
    mod.P = dict(obd["params"], _twin=False, _replay=True)
    mod.LAST = {}
    args, kw = cex
    try:
        ok = getattr(mod, obd["func"])(*args, **kw)
    except Exception as e:
        ok = False
        LAST.update(exception=repr(e))
    detail = dict(LAST)
    if ok is not False:
        return dict(reproduced=False, detail=detail)
    if obd["func"] in ("h_expand", "h_lits") and shutil.which("gcc"):
        d = tempfile.mkdtemp(prefix="vp_c03_")
        try:
            p = os.path.join(d, "t.c")
            with open(p, "w") as f:
                f.write("".join("#define %s\n" % x for x in detail["defines"]) + "RESULT: " + detail["invocation"] + "\n")
            r = subprocess.run(["gcc", "-E", "-P", p], capture_output=True, text=True, timeout=20)
            if r.returncode == 0 and not r.stderr.strip():
                line = [l for l in r.stdout.split("\n") if l.startswith("RESULT:")][0][7:]
                detail["gcc"] = line.strip()
                # token-wise (gcc -E keeps separate tokens apart with a blank: '1 1' is not '11')
                if ref_cpp.lex(line.strip()) != list(detail["expected"]):
                    # the standard leaves some rescanning cases unspecified: drop, do not report
                    return dict(reproduced=False, detail=dict(detail, note="gcc disagrees with the reference: unspecified or harness error"))
            else:
                detail["gcc"] = "diagnostic: " + r.stderr.strip()[:200]
                return dict(reproduced=False, detail=dict(detail, note="gcc diagnoses this input: outside the property"))
        finally:
            shutil.rmtree(d, ignore_errors=True)
    return dict(reproduced=True, detail=detail)


def obligations(tier, known):
    obs = []
    regions = sorted(known)
    if tier == "quick":
        nitems, ng, nh, invs = 8, 5, 2, list(range(12)) + [21, 22, 23]
    else:
        nitems, ng, nh, invs = len(ITEMS), len(GDEFS), 3, list(range(len(INVS)))
    def some_valid(hd, iv):
        for body in ("1 1", "x 1", "x y", "__VA_ARGS__ 1"):
            try:
                ref_macro.expand_spellings(ref_macro.lex_ws(INVS[iv]), _ref_table(HEADS[hd], body, GDEFS[0], HDEFS[0]))
                return True
            except ref_macro.Invalid:
                pass
        return False

    for hd in range(5 if tier == "quick" else len(HEADS)):
        for iv in invs:
            if not some_valid(hd, iv):
                continue  # the invocation's argument count never fits this head: gcc diagnoses it
            # the quick tier's 8 body items: for variadic heads __VA_ARGS__ and #__VA_ARGS__ take the places of y and x##1
            sel = [0, 1, 2, 3, 8, 5, 6, 11] if (tier == "quick" and "..." in HEADS[hd][0]) else None
            obs.append(Ob(id="expand/%s/%s" % (HEADS[hd][0], INVS[iv].replace(" ", "_")), kind="ch", module=__name__, func="h_expand",
                          params=dict(head=hd, inv=iv, nitems=nitems, ng=ng, nh=nh, three=False, regions=regions, items=sel), timeout=900,
                          group="expand"))
    if tier == "thorough":
        for hd in range(5):
            for iv in range(12):
                if not some_valid(hd, iv):
                    continue
                obs.append(Ob(id="expand3/%s/%s" % (HEADS[hd][0], INVS[iv].replace(" ", "_")), kind="ch", module=__name__,
                              func="h_expand", params=dict(head=hd, inv=iv, nitems=10, ng=2, nh=1, three=True, regions=regions),
                              timeout=1500, group="expand"))
    for fid in regions:
        if fid == "C03-rescan-following-source":
            obs.append(Ob(id="witness/" + fid, kind="ch", module=__name__, func="h_expand",
                          params=dict(head=1, inv=5, nitems=10, ng=4, nh=2, three=False, regions=[], witness=fid), timeout=300,
                          expect="witness:" + fid, group="witness"))
    obs.append(Ob(id="defs/literals", kind="ch", module=__name__, func="h_lits", params={}, timeout=200, group="defs"))
    obs.append(Ob(id="defs/macro-names", kind="ch", module=__name__, func="h_names", params={}, timeout=120, group="defs"))
    obs.append(Ob(id="defs/-D-vs-define", kind="ch", module=__name__, func="h_defs", params={}, timeout=120, group="defs"))
    obs.append(Ob(id="ifk/truth", kind="ch", module=__name__, func="h_ifk", params={}, timeout=300, group="ifk"))
    return obs


CLAIM = ("For every macro table and invocation within a deliberately small bound (one function-like macro with 2/3 body items, two "
         "auxiliary macros, 15/28 invocation forms incl. empty and nested-parenthesis arguments, empty ## operands, white space in #, literals spelled like symbols, recursion through arguments and rescanning with the following source) "
         "the real expander's token spellings equal Prosser's algorithm, it terminates without exception, -D and #define spellings define "
         "the same macro, and `#if M(args) == k` has the reference truth value.")
LEVEL_NOTE = ("Weakest claim of the set: token-sequence code offers the solver no value domain; CrossHair only enumerates the bounded "
              "index space and the real expander runs concretely per leaf. Trusted: vp/refs/ref_macro.py (gcc -E -P is consulted on every "
              "replay; disagreements are dropped as unspecified), CrossHair/z3. Outside: larger tables, __VA_OPT__, _Pragma, string "
              "contents in # beyond simple cases.")
