"""C08 - translation units and platforms are analysed in isolation and compose.

Scenarios on a MemFS through the real finder.find.  Symbolic: -D bits per command, which platform each of three
commands belongs to, the order of the commands, the subset of platforms selected.  Postconditions:
  full run restricted to platform p  ==  union over p's commands of single-command runs from a fresh state
                                     ==  the reference preprocessor (vp.refs.ref_cpp)
  a run on the selected platforms only ==  projection of the full run
  permuting the commands changes nothing
"""

from __future__ import annotations

from collections import Counter

from vp import scen
from vp.driver import Ob
from vp.harness import c04
from vp.refs import ref_cpp

PROPERTY = "C08"
LEVEL = "other"
ENGINE = "crosshair+z3"
TECHNIQUE = "CrossHair-enumerated symbolic configuration bits over the real finder.find, compared with single-command runs and a reference preprocessor"
FUNCTIONS = ["codebasin/finder.py:find", "codebasin/finder.py:ParserState.associate/insert_file", "codebasin/platform.py:Platform.*",
             "codebasin/preprocessor.py:IncludeNode/PragmaNode/DefineNode/UndefNode.evaluate_for_platform"]
STUBS = ["vp.memfs mounted (file_parser.open, os façade, finder.tqdm identity, loggers -> recorder)"]
ASSUMPTIONS = ["iso/: -p filtering is modelled as restricting the configuration dict to the selected platforms (what __main__/tree do after "
               "loading); cli/: the real __main__._main and tree.cli run with -p on a scratch tree up to their call of finder.find (a probe)",
               "once the symbolic bits are decided all data is concrete and the real code runs untraced on that leaf"]
BOUNDS = {"quick": "9 scenario templates x 3 commands; every assignment of commands to 3 platforms, 2 of the 6 orders, 3 of the 8 platform subsets, 2 -D bits",
          "thorough": "all 6 orders and all 8 subsets"}
EXPLANATION = ("Assignment, order, subset and -D bits are bounded symbolic values exhausted by CrossHair; on each leaf the real finder.find is run "
               "on the full configuration, on each command alone, on the permuted and on the filtered configuration, and all results are "
               "compared with each other and with the reference preprocessor.")

P = {}
STATS = Counter()
LAST = {}

G = c04.GUARD


def t_shared_define(d):
    files = {
        "/r/a.c": ['#include "shared.h"', "#ifdef FROM_A", "@", "#endif", "#define LEAK 1", "@"],
        "/r/b.c": ["#ifdef LEAK", "@", "#endif", '#include "shared.h"', "#ifdef SHARED_H", "@", "#endif", "@"],
        "/r/c.c": ["#define FROM_A", '#include "shared.h"', "@"],
        "/r/shared.h": G("SHARED_H", ["#ifdef FROM_A", "@", "#else", "@", "#endif", "#ifdef X", "@", "#endif"]),
    }
    cmds = [scen.entry("/r/a.c", ["X"] if d[0] else []), scen.entry("/r/b.c", ["X"] if d[1] else []), scen.entry("/r/c.c", [])]
    return files, cmds


def t_pragma_once(d):
    files = {
        "/r/a.c": ['#include "o.h"', '#include "o.h"', "@"],
        "/r/b.c": ['#include "o.h"', "#ifdef O_SEEN", "@", "#endif"],
        "/r/c.c": ["@", '#include "inc/../o.h"', "@"],
        "/r/o.h": ["#pragma once", "#define O_SEEN", "#ifdef X", "@", "#else", "@", "#endif"],
        "/r/inc/unused.h": ["@"],  # (the directory named in "inc/../o.h" has to exist)
    }
    cmds = [scen.entry("/r/a.c", ["X"] if d[0] else []), scen.entry("/r/b.c", []), scen.entry("/r/c.c", ["X"] if d[1] else [])]
    return files, cmds


def t_undef_cmdline(d):
    files = {
        "/r/a.c": ['#include "u.h"', "#ifdef M", "@", "#else", "@", "#endif"],
        "/r/b.c": ["#ifdef M", "@", "#endif", '#include "u.h"', "#ifdef M", "@", "#endif"],
        "/r/u.h": ["#undef M", "@"],
    }
    cmds = [scen.entry("/r/a.c", ["M"]), scen.entry("/r/b.c", ["M"] if d[0] else []), scen.entry("/r/b.c", ["M=0"] if d[1] else ["M"])]
    return files, cmds


def t_same_file_two_defs(d):
    files = {
        "/r/k.c": ["#if V == 1", "@", "#elif V == 2", "@", "#else", "@", "#endif", '#include "h.h"'],
        "/r/h.h": ["#ifndef H", "#define H", "#if V > 1", "@", "#endif", "#endif"],
    }
    cmds = [scen.entry("/r/k.c", ["V=1"]), scen.entry("/r/k.c", ["V=2"] if d[0] else ["V=3"]), scen.entry("/r/k.c", ["V"] if d[1] else [])]
    return files, cmds


def t_two_dirs(d):
    files = {
        "/r/x/m.c": ['#include "h.h"', "#ifdef IN_X", "@", "#endif", "#ifdef IN_Y", "@", "#endif"],
        "/r/y/n.c": ['#include "h.h"', "#ifdef IN_X", "@", "#endif", "#ifdef IN_Y", "@", "#endif"],
        "/r/x/h.h": ["#define IN_X", "@"],
        "/r/y/h.h": ["#define IN_Y", "@"],
        "/r/z.c": ['#include "x/h.h"', '#include "y/h.h"', "@"],
    }
    cmds = [scen.entry("/r/x/m.c", [], ["/r/y"] if d[0] else []), scen.entry("/r/y/n.c", [], ["/r/x"] if d[1] else []),
            scen.entry("/r/z.c", [], [])]
    return files, cmds


def t_inc_paths(d):
    """commands of one directory whose -I lists differ: the same spelling resolves to different files per command"""
    files = {
        "/r/src/n.c": ['#include "config.h"', '#include "common.h"', "@"],
        "/r/src/d.c": ['#include "config.h"', '#include "common.h"', "@"],
        "/r/src/e.c": ["#include <config.h>", '#include "common.h"', "@"],
        "/r/src/common.h": ["#ifdef NET", "@", "#endif", "#ifdef DISK", "@", "#endif", "@"],
        "/r/cfg_n/config.h": ["#define NET", "@"],
        "/r/cfg_d/config.h": ["#define DISK", "@"],
    }
    cmds = [scen.entry("/r/src/n.c", [], ["/r/cfg_n"]), scen.entry("/r/src/d.c", [], ["/r/cfg_d"]),
            scen.entry("/r/src/e.c", [], ["/r/cfg_d", "/r/cfg_n"] if d[0] else (["/r/cfg_n", "/r/cfg_d"] if d[1] else ["/r/cfg_n"]))]
    return files, cmds


def t_same_file_inc(d):
    """one source file compiled by several commands whose -I lists make the same spelling resolve differently"""
    files = {
        "/r/src/m.c": ["#include <config.h>", "#if BACKEND == 2", "@", "#elif BACKEND == 1", "@", "#else", "@", "#endif", "@"],
        "/r/cfg_n/config.h": ["#define BACKEND 1", "@"],
        "/r/cfg_d/config.h": ["#define BACKEND 2", "@"],
        "/r/cfg_r/config.h": ["@"],
    }
    cmds = [scen.entry("/r/src/m.c", [], ["/r/cfg_n"]), scen.entry("/r/src/m.c", [], ["/r/cfg_d"]),
            scen.entry("/r/src/m.c", [], ["/r/cfg_r"] if d[0] else (["/r/cfg_d", "/r/cfg_n"] if d[1] else ["/r/cfg_n", "/r/cfg_d"]))]
    return files, cmds


def t_computed_inc(d):
    # the same `#include CFG` directive (one node of sel.h's tree) must be re-expanded for every command: CFG names a
    # different header depending on the command's -D
    files = {
        "/r/a.c": ['#include "sel.h"', "#ifdef GPU_CFG", "@", "#endif", "#ifdef CPU_CFG", "@", "#endif"],
        "/r/b.c": ["@", '#include "sel.h"', "#ifdef GPU_CFG", "@", "#else", "@", "#endif"],
        "/r/sel.h": ["#ifdef USE_GPU", '#define CFG "cfg_gpu.h"', "#else", "#define CFG <cfg_cpu.h>", "#endif", "#include CFG", "@"],
        "/r/cfg_gpu.h": ["#define GPU_CFG", "@"],
        "/r/inc/cfg_cpu.h": ["#define CPU_CFG", "@", "@"],
    }
    cmds = [scen.entry("/r/a.c", ["USE_GPU"], ["/r/inc"]), scen.entry("/r/b.c", ["USE_GPU"] if d[0] else [], ["/r/inc"]),
            scen.entry("/r/a.c", ["USE_GPU"] if d[1] else [], ["/r/inc"])]
    return files, cmds


def t_forced_inc(d):
    """commands of one file that differ only in their -include header (same -D, same -I)"""
    files = {
        "/r/main.c": ["#ifdef CFG_A", "@", "#endif", "#ifdef CFG_B", "@", "#else", "@", "#endif", "@"],
        "/r/cfg_a.h": ["#define CFG_A", "@"],
        "/r/cfg_b.h": ["#define CFG_B", "@", "#ifdef CFG_A", "@", "#endif"],
    }
    cmds = [scen.entry("/r/main.c", [], [], ["/r/cfg_a.h"]), scen.entry("/r/main.c", [], [], ["/r/cfg_b.h"] if d[0] else ["/r/cfg_a.h", "/r/cfg_b.h"]),
            scen.entry("/r/main.c", ["CFG_B"] if d[1] else [], [], [])]
    return files, cmds


TEMPLATES = {"forced_inc": t_forced_inc, "computed_inc": t_computed_inc, "same_file_inc": t_same_file_inc, "inc_paths": t_inc_paths, "shared_define": t_shared_define, "pragma_once": t_pragma_once, "undef_cmdline": t_undef_cmdline,
             "same_file_two_defs": t_same_file_two_defs, "two_dirs": t_two_dirs}
PLATS = ["p", "q", "r"]


def _pre(a0, a1, a2, perm, sel):
    return 0 <= a0 < 3 and 0 <= a1 < 3 and 0 <= a2 < 3 and 0 <= perm < P["nperm"] and 0 <= sel < P["nsel"] and a0 == P["fix"]


def h_iso(a0: int, a1: int, a2: int, perm: int, sel: int, d0: bool, d1: bool) -> bool:
    """
    pre: _pre(a0, a1, a2, perm, sel)
    post: _
    """
    asg = []
    for a in (a0, a1, a2):
        for k in range(3):
            if a == k:
                asg.append(k)
    pm = None
    for k in range(6):
        if perm == k:
            pm = scen.PERMS3[(k * 5) % 6]
    s = None
    for k in range(8):
        if sel == k:
            s = k
    d = [bool(d0), bool(d1)]
    with scen.untraced():
        files, cmds = TEMPLATES[P["t"]](d)
        fs = scen.build_fs(files)
        members = list(files)
        conf = {}
        for i, c in enumerate(cmds):
            conf.setdefault(PLATS[asg[i]], []).append(c)
        try:
            exp, _ = ref_cpp.run_platforms(fs, conf)
        except ref_cpp.Diagnostic:
            return True
        # (the reachability twin sits AFTER the reference ran: a template the reference rejects on every path
        # must show up as vacuous, not as discharged)
        STATS["compared"] += 1
        if P.get("_twin"):
            return False
        why = None
        try:
            full, _ = scen.run_cbi(fs, conf, members)
            gfull, dup = scen.attribution(full)
            if dup:
                why = "line in two nodes"
            for p in conf:
                if why:
                    break
                if gfull.get(p, set()) != exp[p]:
                    why = "full run differs from reference for %s: extra %s missing %s" % (
                        p, sorted(gfull.get(p, set()) - exp[p])[:4], sorted(exp[p] - gfull.get(p, set()))[:4])
                    break
                acc = set()
                for c in conf[p]:
                    st, _ = scen.run_cbi(fs, {p: [c]}, members)
                    g1, _d = scen.attribution(st)
                    acc |= g1.get(p, set())
                if acc != gfull.get(p, set()):
                    why = "platform %s: union of single-command runs differs from the full run" % p
            if why is None:
                # permuted order of commands (within the platform lists and of the platform keys)
                order = [cmds[i] for i in pm]
                oasg = [asg[i] for i in pm]
                conf2 = {}
                for i, c in enumerate(order):
                    conf2.setdefault(PLATS[oasg[i]], []).append(c)
                st2, _ = scen.run_cbi(fs, conf2, members)
                g2, _d = scen.attribution(st2)
                if {p: g2.get(p, set()) for p in conf} != {p: gfull.get(p, set()) for p in conf}:
                    why = "permuting the commands changed the result"
            if why is None:
                chosen = [PLATS[k] for k in range(3) if (s >> k) & 1 and PLATS[k] in conf]
                conf3 = {p: conf[p] for p in chosen}
                st3, _ = scen.run_cbi(fs, conf3, members)
                g3, _d = scen.attribution(st3)
                if {p: g3.get(p, set()) for p in chosen} != {p: gfull.get(p, set()) for p in chosen} or set(g3) - set(chosen):
                    why = "selecting platforms %s is not the projection of the full run" % chosen
        except Exception as e:
            why = "exception " + repr(e)
    if P.get("_replay"):
        LAST.update(template=P["t"], assignment=asg, perm=list(pm), selected=s, dbits=d, why=why)
    return why is None


# --------------------------------------------------------------------------
# cli/: -p on the two command-line tools.  The real `codebasin.__main__._main` and `codebasin.tree.cli` run on a scratch
# tree up to the point where they hand the configuration to finder.find (replaced by a probe, see c10._cli_members).

CLI_PLATS = ["p", "q", "r"]


def h_cli(m0: bool, m1: bool, m2: bool, rev: bool, tool: int) -> bool:
    """
    pre: 0 <= tool < 2
    post: _
    """
    from vp.harness import c10

    tl = None
    for j in range(2):
        if tool == j:
            tl = j
    mask = [bool(m0), bool(m1), bool(m2)]
    sel = [CLI_PLATS[i] for i in range(3) if mask[i]]
    if rev:
        sel = sel[::-1]
    STATS["compared"] += 1
    if P.get("_twin"):
        return False
    why = None
    with scen.untraced():
        try:
            got = c10._cli_members(tl, [], [], platforms=CLI_PLATS, select=sel)
            want = sorted(sel) if sel else CLI_PLATS
            if "platforms" not in got:
                why = "the tool never reached finder.find"
            elif got["platforms"] != want:
                why = "-p %s: platforms handed to finder.find are %s, expected %s" % (sel, got["platforms"], want)
            elif any(v != ["a.c"] for v in got["entries"].values()):
                why = "-p %s: commands of the selected platforms changed: %s" % (sel, got["entries"])
        except Exception as e:
            why = "exception " + repr(e)
    if P.get("_replay"):
        LAST.update(tool=["codebasin", "codebasin.tree"][tl], selected=sel, why=why)
    return why is None


def replay(obd, cex):
    import sys

    mod = sys.modules[__name__]
    mod.P = dict(obd["params"], _twin=False, _replay=True)
    mod.LAST = {}
    args, kw = cex
    if obd["func"] == "h_cli":
        # already the real tools on a real scratch tree: a native re-run is the replay
        try:
            ok = h_cli(*args, **kw)
        except Exception as e:
            ok = False
            LAST.update(exception=repr(e))
        return dict(reproduced=(ok is False), detail=dict(LAST))
    try:
        ok = h_iso(*args, **kw)
    except Exception as e:
        ok = False
        LAST.update(exception=repr(e))
    detail = dict(LAST)
    if ok is not False:
        return dict(reproduced=False, detail=detail)
    # public path: the same configuration on real files (unpatched finder.find) and gcc -E per platform
    try:
        files, cmds = TEMPLATES[obd["params"]["t"]](detail["dbits"])
        fs = scen.build_fs(files)
        conf = {}
        for i, c in enumerate(cmds):
            conf.setdefault(PLATS[detail["assignment"][i]], []).append(c)
        exp, _ = ref_cpp.run_platforms(fs, conf)
        got, warns, gcc = scen.disk_replay(fs, conf, list(files))
        detail["disk_matches_reference"] = {p: got.get(p, set()) == exp[p] for p in conf}
        for p in conf:
            g = gcc.get(p)
            if isinstance(g, set) and g != scen.code_tokens(fs, exp[p]):
                return dict(reproduced=False, detail=dict(detail, note="gcc -E disagrees with ref_cpp: harness error"))
    except Exception as e:
        detail["disk_exception"] = repr(e)
    return dict(reproduced=True, detail=detail)


def obligations(tier, known):
    obs = []
    for t in TEMPLATES:
        for fx in range(3):
            obs.append(Ob(id="iso/%s/a0=%d" % (t, fx), kind="ch", module=__name__, func="h_iso", params=dict(t=t, fix=fx, nperm=2 if tier == "quick" else 6, nsel=3 if tier == "quick" else 8), timeout=600,
                          group="iso"))
    obs.append(Ob(id="cli/select", kind="ch", module=__name__, func="h_cli", params={}, timeout=300, group="cli"))
    return obs


CLAIM = ("For every assignment of three commands to up to three platforms, every command order, every selected subset and every -D choice in "
         "9 scenarios with shared headers (guards, #pragma once, #undef of command-line macros, same header from two directories, a computed include, commands differing only in -include), the "
         "full analysis equals the union of fresh single-command analyses, the reference preprocessor, its own permutations and the "
         "projection of itself - exhausted by CrossHair.")
LEVEL_NOTE = ("Trusted: CrossHair/z3 for the enumeration, vp/memfs.py, vp/refs/ref_cpp.py (gcc -E on replay). Bounded: 9 templates, 3 commands, "
              "3 platforms. cli/: every subset of 3 platforms given with -p (both orders) x 2 tools; the rest of the CLI is outside.")
