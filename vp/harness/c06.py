"""C06 - every counted line lands in exactly one platform set; all reports agree.

sums/   the real ParserState.get_setmap, report.files/FileTree.insert/_print on a parser state whose CodeNode line
        counts are symbolic integers and whose associations are chosen by symbolic bits: linear-arithmetic identities
        (rows are sums, directories are sums of their files, root == summary table, prune drops exactly the unused
        files, a depth limit only hides rows), decided for all counts at once
front/  the three front-end functions (get_setmap + report.summary, report.files, coverage._compute) on one real
        on-disk input per leaf of a symbolic scenario: used/unused partition, content hash, agreement of all totals
"""

from __future__ import annotations

import collections
import posixpath
from collections import Counter

from vp import memfs, scen
from vp.driver import Ob

PROPERTY = "C06"
LEVEL = "other"
ENGINE = "crosshair+z3"
TECHNIQUE = ("CrossHair symbolic execution of the real setmap/tree accumulation with symbolic line counts (linear integer arithmetic), "
             "plus solver-enumerated scenarios through the three report functions")
FUNCTIONS = ["codebasin/finder.py:ParserState.get_setmap", "codebasin/report.py:files", "codebasin/report.py:FileTree.insert",
             "codebasin/report.py:FileTree._print", "codebasin/report.py:FileTree.Node.sloc/platforms", "codebasin/report.py:summary",
             "codebasin/coverage/__main__.py:_compute"]
STUBS = ["sums/: frozenset in finder/report -> native frozenset (CrossHair's substitute has a symbolic hash that C-level defaultdict rejects); report.Path/finder.Path -> MemFS path façade; FileTree.Node._meta_str -> '' (float formatting realises symbolic values); "
         "FileTree.write_to captures the tree", "front/: tabulate captured; sys.exit in _compute intercepted; real files in a scratch directory"]
ASSUMPTIONS = ["the rendered text (column alignment, colours, human-readable rounding above 999 lines) and the process-level CLIs are outside",
               "front/ runs the real code untraced on each leaf"]
BOUNDS = {"quick": "sums/: 4 files in a 3-level layout (one is a symlink into the code base, one unused), 5 code nodes with symbolic counts "
                   "0..10^6, associations over 2 platforms chosen by 2 bits per node (split over obligations), prune symbolic, depth limit in {none, 2} (thorough: 0..3); "
                   "front/: 1 scenario x 4 bits",
          "thorough": "sums/ over 3 platforms"}
EXPLANATION = ("sums/: CrossHair keeps the line counts symbolic through the real accumulation code, so every identity is proven by z3 for all "
               "counts in range per association pattern. front/: per solver-enumerated scenario the three report functions run on the same "
               "real input and their outputs are compared with each other and with the per-line attribution.")

P = {}
STATS = Counter()
LAST = {}

FILES = ["/r/a.c", "/r/d/b.c", "/r/d/e/c.h", "/r/unused.c", "/r/d/lnk.c"]  # lnk.c -> a.c
NODES = [("/r/a.c", 0), ("/r/a.c", 1), ("/r/d/b.c", 2), ("/r/d/e/c.h", 3), ("/r/unused.c", 4)]
PLATS = ["p", "q", "s"]


def _fs():
    fs = memfs.MemFS("/r")
    for f in FILES[:4]:
        fs.add(f, ["@"])
    fs.symlink("/r/d/lnk.c", "/r/a.c")
    return fs


def _pre(ns, ks):
    for n in ns:
        if not (0 <= n <= 1000000):
            return False
    npl = P["nplat"]
    for k in ks:
        if not (0 <= k < (1 << npl)):
            return False
    fx = P["fix"]
    return ks[0] == fx[0] and ks[1] == fx[1]


def h_sums(n0: int, n1: int, n2: int, n3: int, n4: int, k0: int, k1: int, k2: int, k3: int, prune: bool, levels: int) -> bool:
    """
    pre: _pre([n0, n1, n2, n3, n4], [k0, k1, k2, k3]) and levels in P["levels"]
    post: _
    """
    import codebasin.finder as finder
    import codebasin.preprocessor as pp
    import codebasin.report as report

    ns = [n0, n1, n2, n3, n4]
    npl = P["nplat"]
    masks = []
    for k in (k0, k1, k2, k3):
        for m in range(1 << npl):
            if k == m:
                masks.append(m)
    masks.append(0)  # the node of unused.c is used by nobody
    lv = None
    for m in range(4):
        if levels == m:
            lv = m
    STATS["compared"] += 1
    if P.get("_twin"):
        return False
    def native_frozenset(it=()):
        # CrossHair substitutes its own frozenset whose hash is symbolic; the C-level defaultdict cannot take that as a
        # key.  Platform names are concrete strings, so build the real frozenset outside the tracer.
        items = list(it)
        with scen.untraced():
            return frozenset(items)

    fs = _fs()
    state = finder.ParserState(True)
    assoc_of = {}
    for fn in FILES[:4]:
        tree = pp.SourceTree(fn)
        state.trees[fn] = tree
        state.maps[fn] = collections.defaultdict(set)
        state.langs[fn] = "c"
    for i, (fn, j) in enumerate(NODES):
        node = pp.CodeNode(i + 1, i + 1, ns[i], lines=[i + 1])
        state.trees[fn].root.add_child(node)
        s = set(PLATS[b] for b in range(npl) if (masks[i] >> b) & 1)
        state.maps[fn][node] = s
        assoc_of[i] = native_frozenset(s)
    members = list(FILES)
    cb = memfs.FakeCodeBase(members, ["/r"])
    captured = {}

    def write_to(self, stream, levels=None):
        captured["tree"] = self
        captured["rows"] = self._print(self.root, fancy=False, levels=levels)
        captured["all"] = self._print(self.root, fancy=False, levels=None)

    class _Sink:
        def isatty(self):
            return False

        def write(self, s):
            pass

    saved = (report.Path, report.FileTree.write_to, report.FileTree.Node._meta_str)
    finder.frozenset = native_frozenset
    report.frozenset = native_frozenset
    report.Path = memfs.make_path_class(fs)
    report.FileTree.write_to = write_to
    report.FileTree.Node._meta_str = lambda self, root: ""
    why = None
    try:
        with memfs.mounted(fs):
            setmap = dict(state.get_setmap(cb))
            report.files(cb, state, stream=_Sink(), prune=bool(prune), levels=lv)
    except Exception as e:
        why = "exception " + repr(e)
        if P.get("_debug"):
            import traceback

            traceback.print_exc(limit=12)
    finally:
        report.Path, report.FileTree.write_to, report.FileTree.Node._meta_str = saved
        del finder.frozenset
        del report.frozenset
    if why is None:
        # (i) rows of the table are the sums per exact association; links add nothing
        want = {}
        for i in range(5):
            want[assoc_of[i]] = want.get(assoc_of[i], 0) + ns[i]
        keys = set(want) | set(setmap)
        for k in keys:
            if setmap.get(k, 0) != want.get(k, 0):
                why = "get_setmap row %s" % sorted(k)
        total = n0 + n1 + n2 + n3 + n4
        if why is None and sum(setmap.values()) != total:
            why = "total SLOC"
    if why is None:
        tree = captured["tree"]
        root = tree.root

        def file_sum(indices):
            out = {}
            for i in indices:
                out[assoc_of[i]] = out.get(assoc_of[i], 0) + ns[i]
            return out

        used = {"/r/a.c": masks[0] != 0 or masks[1] != 0, "/r/d/b.c": masks[2] != 0, "/r/d/e/c.h": masks[3] != 0,
                "/r/unused.c": False}
        by_file = {"/r/a.c": [0, 1], "/r/d/b.c": [2], "/r/d/e/c.h": [3], "/r/unused.c": [4]}
        present = [f for f in by_file if (used[f] or not prune)]

        def eq(sm, exp):
            for k in set(sm) | set(exp):
                if sm.get(k, 0) != exp.get(k, 0):
                    return False
            return True

        def walk(node, path):
            yield path, node
            for name, ch in node.children.items():
                yield from walk(ch, path + "/" + name)

        nodes = dict(walk(root, "/r"))
        files_in_tree = {p for p in nodes if p in by_file}
        if files_in_tree != set(present):
            why = "files in tree %s != %s (prune=%s)" % (sorted(files_in_tree), sorted(present), bool(prune))
        elif ("/r/d/lnk.c" in nodes) != (used["/r/a.c"] or not prune):
            why = "symlink row presence"
        else:
            for p, node in nodes.items():
                if p in by_file:
                    exp = file_sum(by_file[p])
                elif p == "/r/d/lnk.c":
                    exp = file_sum(by_file["/r/a.c"])  # the link row shows its target's figures but is not propagated
                else:
                    exp = file_sum([i for f in present if f.startswith(p + "/") for i in by_file[f]])
                if not eq(dict(node.setmap), exp):
                    why = "node %s setmap differs from the sum of the files beneath it" % p
                    break
            if why is None and not prune and not eq(dict(root.setmap), setmap):
                why = "unpruned root differs from the summary table"
            if why is None:
                rows, allrows = captured["rows"], captured["all"]
                if [r for r in allrows if r in rows] != rows or len(rows) > len(allrows):
                    why = "limiting the depth did more than hide rows"
                elif lv in (None, 0) and rows != allrows:
                    why = "levels=0/None must print everything"
    if P.get("_debug") and why:
        print("WHY:", why)
    if P.get("_replay"):
        LAST.update(counts=[int(x) for x in ns], masks=masks, prune=bool(prune), levels=lv, why=why)
    return why is None


# --------------------------------------------------------------------------
# front/: three report functions on the same real input


def h_front(dx: bool, dy: bool, hdr: bool, two: bool, raw: bool) -> bool:
    """
    post: _
    """
    import hashlib
    import json
    import os
    import shutil
    import tempfile
    import types

    STATS["compared"] += 1
    if P.get("_twin"):
        return False
    why = None
    with scen.untraced():
        import codebasin
        import codebasin.config as config
        import codebasin.coverage.__main__ as cov
        import codebasin.finder as finder
        import codebasin.report as report

        d = os.path.realpath(tempfile.mkdtemp(prefix="vp_c06_"))
        try:
            files = {
                "src/main.c": ['#include "h.h"', "#ifdef X", "int x;", "#else", "int nx;", "#endif", "#ifdef HH", "int hh;", "#endif", "int m;"],
                "src/sub/util.c": ["#ifdef Y", "int y;", "int y2;", "#endif", "", "int u; // c"],
                "src/unused.c": ["int never;", "/* c */", "int never2;"],
                "inc/h.h": ["#define HH", "int h;"],
                "notes.txt": ["not a source file"],
            }
            if not hdr:
                files["src/main.c"][0] = "int no_include;"
            for rel, lines in files.items():
                p = os.path.join(d, rel)
                os.makedirs(os.path.dirname(p), exist_ok=True)
                data = ("\n".join(lines) + "\n").encode()
                if raw and rel == "inc/h.h":
                    data = data.replace(b"\n", b"\r\n")  # a header checked out with CRLF line endings
                if raw and rel == "src/sub/util.c":
                    data = data.replace(b"// c", b"// caf\xe9")  # a Latin-1 byte: not valid UTF-8
                with open(p, "wb") as f:
                    f.write(data)
            os.symlink(os.path.join(d, "src/main.c"), os.path.join(d, "src/link.c"))
            db = [{"directory": d, "file": "src/main.c", "arguments": ["gcc", "-Iinc"] + (["-DX"] if dx else []) + ["-c", "src/main.c"]}]
            if two:
                db.append({"directory": d, "file": "src/sub/util.c", "arguments": ["gcc"] + (["-DY"] if dy else []) + ["-c", "src/sub/util.c"]})
            dbp = os.path.join(d, "compile_commands.json")
            with open(dbp, "w") as f:
                json.dump(db, f)
            rec = memfs.Recorder()
            old_log = config.log
            config.log = rec
            cwd = os.getcwd()
            try:
                entries = config.load_database(dbp, d)
                cb = codebasin.CodeBase(d)
                state = finder.find(d, cb, {"cli": entries})
                setmap = dict(state.get_setmap(cb))
                attr, dup = scen.attribution(state)
                counted = scen.counted_lines(state)
                members = sorted(str(x) for x in cb)
                # --- summary
                rows = {}
                old_tab = report.tabulate

                def fake_tab(data, **kw):
                    for r in data:
                        rows[r[0]] = (r[1], r[2])
                    return ""

                out = []

                class S:
                    def isatty(self):
                        return False

                    def write(self, s):
                        out.append(s)

                report.tabulate = fake_tab
                try:
                    report.summary(collections.defaultdict(int, setmap), stream=S())
                finally:
                    report.tabulate = old_tab
                text = "".join(out)
                total = sum(setmap.values())
                nonlink = [m for m in members if not os.path.islink(m)]
                exp_total = len([1 for (fn, ln) in counted if fn in nonlink])
                if total != exp_total:
                    why = "setmap total %d != counted lines of member files %d" % (total, exp_total)
                elif "Total SLOC: %d" % total not in text:
                    why = "Total SLOC line"
                else:
                    for k, v in setmap.items():
                        name = "{" + ", ".join(sorted(k)) + "}"
                        pct = "%.2f" % (v * 100.0 / total)
                        if rows.get(name) != (str(v), pct):
                            why = "summary row %s: %s != %s" % (name, rows.get(name), (str(v), pct))
                # --- tree
                if why is None:
                    cap = {}
                    old_w = report.FileTree.write_to
                    report.FileTree.write_to = lambda self, stream, levels=None: cap.setdefault("t", self)
                    try:
                        report.files(cb, state, stream=S())
                    finally:
                        report.FileTree.write_to = old_w
                    root = cap["t"].root
                    if {k: v for k, v in dict(root.setmap).items() if v} != {k: v for k, v in setmap.items() if v}:
                        why = "tree root %s != summary %s" % (dict(root.setmap), setmap)
                # --- coverage export
                if why is None:
                    ofile = os.path.join(d, "coverage.json")
                    args = types.SimpleNamespace(ifile=dbp, ofile=ofile, source_dir=d, excludes=[])
                    try:
                        cov._compute(args)
                    except SystemExit:
                        pass
                    with open(ofile) as f:
                        arr = json.load(f)
                    seen = set()
                    for ent in arr:
                        path = os.path.join(d, ent["file"])
                        seen.add(path)
                        u, un = ent["used_lines"], ent["unused_lines"]
                        real = os.path.realpath(path)
                        cl = sorted(ln for (fn, ln) in counted if fn == real)
                        if sorted(u + un) != cl or set(u) & set(un):
                            why = "%s: used+unused %s is not a partition of the counted lines %s" % (ent["file"], sorted(u + un), cl)
                        elif set(u) != {ln for (fn, ln) in attr.get("cli", set()) if fn == real}:
                            why = "%s: used lines differ from the in-process attribution" % ent["file"]
                        else:
                            with open(path, "rb") as f:
                                if ent["id"] != hashlib.sha512(f.read()).hexdigest():
                                    why = "%s: id is not the SHA-512 of the content" % ent["file"]
                        if why:
                            break
                    if why is None and seen != set(members):
                        why = "coverage export lists %s, code base has %s" % (sorted(seen), members)
            finally:
                config.log = old_log
                os.chdir(cwd)
        except Exception as e:
            import traceback

            why = "exception " + repr(e) + traceback.format_exc()[-400:]
        finally:
            shutil.rmtree(d, ignore_errors=True)
            try:
                os.remove("cbi.log")
            except OSError:
                pass
    if P.get("_replay"):
        LAST.update(bits=[bool(dx), bool(dy), bool(hdr), bool(two)], raw_bytes=bool(raw), why=why)
    return why is None


def obligations(tier, known):
    obs = []
    npl = 2 if tier == "quick" else 3
    for a in range(1 << npl):
        for b in range(1 << npl):
            obs.append(Ob(id="sums/%dp/k0=%d,k1=%d" % (npl, a, b), kind="ch", module=__name__, func="h_sums",
                          params=dict(nplat=npl, fix=[a, b], levels=[0, 2] if tier == "quick" else [0, 1, 2, 3]), timeout=600,
                          group="sums"))
    obs.append(Ob(id="front/scenario", kind="ch", module=__name__, func="h_front", params={}, timeout=300, group="front"))
    return obs


CLAIM = ("For all line counts (symbolic integers) and every association pattern within the bound the platform-set table, the file tree "
         "(directories = sums of their files, links not propagated, prune, depth limit) and their totals satisfy the stated identities - "
         "proven by z3 through the real accumulation code; and on solver-enumerated real inputs the summary, tree and coverage export agree "
         "with each other and with the per-line attribution.")
LEVEL_NOTE = ("Trusted: CrossHair/z3 (linear integer arithmetic), the path façade. Outside: rendered text, colours, human-readable rounding, "
              "argument parsing of the three executables.")
