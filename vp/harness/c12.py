"""C12 - compiler emulation: aliases, implicit options, modes and passes.

alias/    every functional alias graph on n compilers (alias target per compiler is a symbolic index: none, any name,
          a missing name): ArgumentParser.__init__ returns, resolves to the non-alias compiler the chain reaches, or
          reports the loop / unknown target and leaves the empty compiler
compose/  a generated compiler definition (2 modes, passes, one rule per action kind) with symbolic bits for which
          flags are on the command line and which are implicit options: parse_args(argv) with options ==
          parse_args(argv + options) without, and both equal an independent reference of the documented semantics
builtin/  the four shipped TOML definitions against the same reference for every documented flag subset
attr/     a line is attributed to a platform if any pass of any of its commands uses it (load_database + find on MemFS)
"""

from __future__ import annotations

import copy
import re
import string
from collections import Counter

from vp import memfs, scen
from vp.driver import Ob

PROPERTY = "C12"
LEVEL = "other"
ENGINE = "crosshair+z3"
TECHNIQUE = "CrossHair symbolic execution of the real alias resolution and pass/mode composition with symbolic alias targets and flag bits"
FUNCTIONS = ["codebasin/config.py:ArgumentParser.__init__", "codebasin/config.py:ArgumentParser.parse_args",
             "codebasin/config.py:_StoreSplitAction", "codebasin/config.py:_ExtendMatchAction", "codebasin/config.py:_Compiler.from_toml",
             "codebasin/config.py:_load_compilers", "codebasin/config.py:load_database", "codebasin/finder.py:find",
             "codebasin/compilers/{gnu,clang,intel,nvidia}.toml"]
STUBS = ["config._compilers replaced by the generated table (alias/, compose/); config.log -> recorder",
         "user-config/: .cbi/config served from a MemFS (config.os façade, config.open)",
         "attr/: vp.memfs mounted, CompilationDatabase.from_file -> from_json"]
ASSUMPTIONS = [
    "semantics of passes as implemented by design: configurations = default + the default passes of pass-selecting rules whose "
    "flag is absent + the passes selected by flags that are present; the default pass gets the modes enabled on the command "
    "line, every other pass gets the modes declared for it",
]
BOUNDS = {
    "quick": "alias/: all 6^4 graphs on 4 compilers; compose/: one generated definition, 2^7 flag-presence x 2^4 implicit-option bits "
             "(split over obligations); builtin/: all subsets of <= 4 documented flags per shipped compiler",
    "thorough": "alias/: all 7^5 graphs on 5 compilers; compose/ with a second value spelling per valued flag",
}
EXPLANATION = (
    "Alias targets and flag bits are bounded symbolic integers/bools; CrossHair exhausts them through the real constructor and "
    "parse_args (alias/ fully traced; compose/ and builtin/ run the real code untraced on each leaf because everything is "
    "concrete once the bits are decided) and compares with an independent reference of the composition rules."
)

P = {}
STATS = Counter()
LAST = {}

# --------------------------------------------------------------------------
# alias graphs

NAMES = ["c0", "c1", "c2", "c3", "c4"]


def _ref_alias(targets, start):
    """targets: {name: None | name | 'missing'} -> ('ok', final) | ('loop',) | ('unknown',)"""
    chain = [start]
    while targets[chain[-1]] is not None:
        t = targets[chain[-1]]
        if t in chain:
            return ("loop",)
        if t not in targets:
            return ("unknown",)
        chain.append(t)
    return ("ok", chain[-1])


def _pre_alias(ts):
    n = P["n"]
    for i in range(5):
        if i < n:
            if not (0 <= ts[i] <= n + 1):
                return False
        elif ts[i] != 0:
            return False
    fx = P.get("fix0")
    if fx is not None and ts[0] != fx:
        return False
    return True


def h_alias(t0: int, t1: int, t2: int, t3: int, t4: int) -> bool:
    """
    pre: _pre_alias([t0, t1, t2, t3, t4])
    post: _
    """
    import codebasin.config as config

    n = P["n"]
    ts = [t0, t1, t2, t3, t4]
    targets = {}
    table = {}
    for i in range(n):
        tgt = None
        for k in range(1, n + 2):  # 0 = not an alias, 1..n = compiler k-1, n+1 = a name that is not defined
            if ts[i] == k:
                tgt = NAMES[k - 1] if k <= n else "missing"
        targets[NAMES[i]] = tgt
        c = config._Compiler(alias_of=tgt, options=["-DOPT_" + NAMES[i]])
        table[NAMES[i]] = c
    STATS["compared"] += 1
    if P.get("_twin"):
        return False
    rec = memfs.Recorder()
    old_c, old_l = config._compilers, config.log
    config._compilers = table
    config.log = rec
    import signal

    def _hang(signum, frame):
        raise TimeoutError("ArgumentParser.__init__ did not return within 5 s: alias resolution hangs")

    old_h = signal.signal(signal.SIGALRM, _hang)
    old_left = signal.alarm(5)
    try:
        ap = config.ArgumentParser("/usr/bin/" + NAMES[0])
    except Exception as e:
        if P.get("_replay"):
            LAST.update(targets=targets, exception=repr(e))
        return False
    finally:
        signal.alarm(0)
        signal.signal(signal.SIGALRM, old_h)
        if old_left:
            signal.alarm(max(1, old_left))
        config._compilers = old_c
        config.log = old_l
    exp = _ref_alias(targets, NAMES[0])
    errors = [m for l, m in rec.records if l == "error"]
    if exp[0] == "ok":
        ok = ap.compiler is table[exp[1]] and not errors
    else:
        word = "loop" if exp[0] == "loop" else "unrecognized"
        ok = ap.compiler.options == [] and ap.compiler.alias_of is None and len(errors) == 1 and word in errors[0]
    if P.get("_replay"):
        LAST.update(targets=targets, expected=exp, resolved_options=list(ap.compiler.options), errors=errors)
    return ok


# --------------------------------------------------------------------------
# reference for option composition


def ref_parse(defn, argv, with_options=True):
    """independent model of the documented composition rules -> {pass_name: (defines, include_paths, include_files)}"""
    eff = list(argv) + (list(defn.get("options", [])) if with_options else [])
    defines, paths, syspaths, files = [], [], [], []
    modes = []
    rules = defn.get("parser", [])
    flagmap = {}
    for r in rules:
        for f in r["flags"]:
            flagmap[f] = r
    selected = {}  # first flag of a pass-selecting rule -> list of passes
    seen_override = set()
    i = 0
    while i < len(eff):
        a = eff[i]
        val = None
        key = None
        if a in flagmap:
            key = a
        elif "=" in a and a.split("=", 1)[0] in flagmap:
            key, val = a.split("=", 1)
        if key is not None:
            r = flagmap[key]
            act = r["action"]
            if act in ("append_const", "store_const"):
                tgt = r["dest"]
                if tgt == "modes":
                    modes.append(r["const"])
                elif tgt == "defines":
                    defines.append(r["const"])
                elif tgt == "passes":
                    selected.setdefault("builtin", []).append(r["const"])
                i += 1
                continue
            if val is None:
                val = eff[i + 1]
                i += 1
            first = r["flags"][0]
            if act == "store_split":
                vals = val.split(r.get("sep"))
                if r.get("format"):
                    vals = [string.Template(r["format"]).substitute(value=v) for v in vals]
                if r["dest"] == "passes":
                    selected[key] = vals  # keyed by the spelling used
                elif r["dest"] == "defines":
                    defines[:] = vals
            elif act == "extend_match":
                vals = re.findall(r["pattern"], val)
                if r.get("format"):
                    vals = [string.Template(r["format"]).substitute(value=v) for v in vals]
                if r["dest"] == "passes":
                    if r.get("override") and first not in seen_override:
                        selected[first] = list(vals)
                        seen_override.add(first)
                    else:
                        selected.setdefault(first, []).extend(vals)
            i += 1
            continue
        matched = False
        for flag, lst in (("-D", defines), ("-isystem", syspaths), ("-include", files), ("-I", paths)):
            if a == flag:
                lst.append(eff[i + 1])
                i += 2
                matched = True
                break
            if a.startswith(flag) and len(a) > len(flag):
                lst.append(a[len(flag):])
                i += 1
                matched = True
                break
        if not matched:
            i += 1
    paths = paths + syspaths  # -isystem directories are searched after all -I directories
    # default passes of pass-selecting rules whose flag was not used
    for r in rules:
        if r["action"] in ("store_split", "extend_match") and r.get("dest") == "passes" and "default" in r:
            first = r["flags"][0]
            used = any(k in selected for k in r["flags"])
            if not used:
                selected[first] = list(r["default"])
    passes = {"default"}
    for v in selected.values():
        passes |= set(v)
    pm = {p["name"]: p for p in defn.get("passes", [])}
    mm = {m["name"]: m for m in defn.get("modes", [])}
    out = {}
    for p in passes:
        d, ip, f = list(defines), list(paths), list(files)
        if p == "default":
            ms = set(modes)
        else:
            if p not in pm:
                continue
            d += pm[p].get("defines", [])
            ip += pm[p].get("include_paths", [])
            f += pm[p].get("include_files", [])
            ms = set(pm[p].get("modes", []))
        extra_d, extra_i, extra_f = [], [], []
        for m in ms:
            if m in mm:
                extra_d += mm[m].get("defines", [])
                extra_i += mm[m].get("include_paths", [])
                extra_f += mm[m].get("include_files", [])
        # modes are applied in set order: compare their contribution as a multiset
        out[p] = (d, ip, f, sorted(extra_d), sorted(extra_i), sorted(extra_f))
    return out


def _norm_configs(cfgs, defn, argv, base_counts):
    """split each real configuration into (ordered base part, multiset of the mode part) using the reference's base length"""
    out = {}
    for c in cfgs:
        nb = base_counts.get(c.pass_name)
        if nb is None:
            out[c.pass_name] = None
            continue
        nd, ni, nf = nb
        out[c.pass_name] = (c.defines[:nd], c.include_paths[:ni], c.include_files[:nf], sorted(c.defines[nd:]),
                            sorted(c.include_paths[ni:]), sorted(c.include_files[nf:]))
    return out


GEN = {
    "options": [],
    "parser": [
        {"flags": ["-fmode1"], "action": "append_const", "dest": "modes", "const": "m1"},
        {"flags": ["-fmode2", "--mode2"], "action": "append_const", "dest": "modes", "const": "m2"},
        {"flags": ["-fpass"], "action": "store_split", "sep": ",", "format": "p_$value", "dest": "passes", "default": ["p_a"]},
        {"flags": ["--arch", "-arch"], "action": "extend_match", "pattern": r"(?:x|y_)(\d+)", "format": "q_$value", "dest": "passes",
         "default": ["q_0"], "override": True},
        {"flags": ["-fdef"], "action": "append_const", "dest": "defines", "const": "FDEF"},
    ],
    "modes": [
        {"name": "m1", "defines": ["M1"], "include_paths": ["/m1"]},
        {"name": "m2", "defines": ["M2"], "include_files": ["m2.h"]},
    ],
    "passes": [
        {"name": "p_a", "defines": ["PA"], "modes": ["m1"]},
        {"name": "p_b", "defines": ["PB"], "include_paths": ["/pb"]},
        {"name": "q_0", "defines": ["Q0"]},
        {"name": "q_1", "defines": ["Q1=1"], "modes": ["m2", "m1"]},
        {"name": "q_2", "defines": ["Q2"], "include_files": ["q2.h"]},
    ],
}
# command-line / option fragments chosen by bits
FRAGS = [["-fmode1"], ["--mode2"], ["-fpass=a,b"], ["--arch", "x1"], ["-arch=y_2,x1"], ["-fdef"], ["-DCMD=1", "-I", "/cmd"]]
OPT_FRAGS = [["-fmode2"], ["-fpass", "b"], ["--arch=x2"], ["-DIMPLICIT", "-include", "imp.h"]]


def _make_compiler(config, defn, with_options):
    d = copy.deepcopy(defn)
    if not with_options:
        d["options"] = []
    return config._Compiler.from_toml(d)


def _untraced():
    import contextlib

    try:
        from crosshair.tracers import NoTracing, is_tracing

        if is_tracing():
            return NoTracing()
    except Exception:
        pass
    return contextlib.nullcontext()


def _run(config, table, name, argv):
    rec = memfs.Recorder()
    old_c, old_l = config._compilers, config.log
    config._compilers = table
    config.log = rec
    try:
        with _untraced():
            cfgs = config.ArgumentParser(name).parse_args(list(argv))
        return cfgs, rec
    finally:
        config._compilers = old_c
        config.log = old_l


def _compare(cfgs, exp):
    base = {p: (len(v[0]), len(v[1]), len(v[2])) for p, v in exp.items()}
    got = _norm_configs(cfgs, None, None, base)
    names = sorted(c.pass_name for c in cfgs)
    if names != sorted(exp):
        return "pass set %s != %s" % (names, sorted(exp))
    for p in exp:
        if got[p] != tuple(exp[p]):
            return "pass %s: %s != %s" % (p, got[p], tuple(exp[p]))
    return None


def h_compose(b0: bool, b1: bool, b2: bool, b3: bool, b4: bool, b5: bool, b6: bool, o0: bool, o1: bool, o2: bool, o3: bool) -> bool:
    """
    pre: [b0, b1, b2] == P["fix"]
    post: _
    """
    import codebasin.config as config

    bits = [b0, b1, b2, b3, b4, b5, b6]
    obits = [o0, o1, o2, o3]
    argv = []
    for i in range(7):
        if bits[i]:
            argv += FRAGS[i]
    argv.append("x.c")
    opts = []
    for i in range(4):
        if obits[i]:
            opts += OPT_FRAGS[i]
    defn = copy.deepcopy(GEN)
    defn["options"] = opts
    STATS["compared"] += 1
    if P.get("_twin"):
        return False
    try:
        with _untraced():
            t1 = {"cc": _make_compiler(config, defn, True)}
            t2 = {"cc": _make_compiler(config, defn, False)}
            exp = ref_parse(defn, argv)
        c1, r1 = _run(config, t1, "cc", argv)
        c2, r2 = _run(config, t2, "cc", argv + opts)
        # history: the same compiler table is used again for the same command after an unrelated one
        _run(config, t1, "cc", ["--arch", "x2", "-fpass=b", "y.c"])
        c3, r3 = _run(config, t1, "cc", argv)
    except Exception as e:
        if P.get("_replay"):
            LAST.update(argv=argv, options=opts, exception=repr(e))
        return False
    why = _compare(c1, exp)
    if why is None:
        why2 = _compare(c2, exp)
        if why2 is not None:
            why = "explicit-options run: " + why2
    if why is None:
        why3 = _compare(c3, exp)
        if why3 is not None:
            why = "second use of the same compiler table: " + why3
    if why is None and (r1.warnings() or [m for l, m in r1.records if l == "error"]):
        why = "unexpected diagnostics %s" % (r1.records,)
    if P.get("_replay"):
        LAST.update(argv=argv, options=opts, why=why, observed=[(c.pass_name, c.defines, c.include_paths, c.include_files) for c in c1],
                    expected={k: list(v) for k, v in exp.items()})
    return why is None


# --------------------------------------------------------------------------
# built-in definitions

BUILTIN_FLAGS = {
    "gcc": [["-fopenmp"], ["-DA"], ["-I", "/x"]],
    "g++": [["-fopenmp"], ["-DA"]],
    "clang": [["-fopenmp"], ["-DA"]],
    "clang++": [["-fopenmp"]],
    "icx": [["-fopenmp"], ["-fsycl"], ["-fsycl-targets=spir64_gen,nvptx64-nvidia-cuda"], ["-DA"]],
    "icpx": [["-fsycl"], ["-fsycl-targets=spir64"], ["-fopenmp"]],
    "nvcc": [["-fopenmp"], ["--gpu-architecture=sm_80"], ["-gencode", "arch=compute_75,code=sm_75"], ["--gpu-code=sm_90,sm_89"]],
}
_BUILTIN = {}


def _load_builtin():
    import pkgutil
    import tomllib

    if _BUILTIN:
        return _BUILTIN
    for fn in ["clang", "gnu", "intel", "nvidia"]:
        toml = tomllib.loads(pkgutil.get_data("codebasin", "compilers/%s.toml" % fn).decode())
        for name, d in toml["compiler"].items():
            _BUILTIN[name] = d
    return _BUILTIN


_PRISTINE = {}


def prepare(params):
    import codebasin.config as config

    config._load_compilers()
    _PRISTINE["c"] = copy.deepcopy(config._compilers)
    _load_builtin()


def h_builtin(b0: bool, b1: bool, b2: bool, b3: bool, c0: bool, c1: bool, c2: bool, c3: bool) -> bool:
    """
    post: _
    """
    # history: a first command (flag subset c) is parsed with the same compiler table, then the command under test
    # (flag subset b); nothing the first parse did may change the second result.  seq=False: c is forced empty and no
    # first command is parsed.
    import codebasin.config as config

    name = P["compiler"]
    frs = BUILTIN_FLAGS[name]
    bits = [b0, b1, b2, b3]
    cbits = [c0, c1, c2, c3]
    for i in range(len(frs), 4):
        if bits[i] or cbits[i]:
            return True
    if not P.get("seq") and (c0 or c1 or c2 or c3):
        return True
    argv = []
    first = []
    for i in range(len(frs)):
        if bits[i]:
            argv += frs[i]
        if cbits[i]:
            first += frs[i]
    argv.append("x.cpp")
    first.append("w.cpp")
    table = _load_builtin()
    target = name
    hops = 0
    while table[target].get("alias_of") and hops < 5:
        target = table[target]["alias_of"]
        hops += 1
    STATS["compared"] += 1
    if P.get("_twin"):
        return False
    try:
        with _untraced():
            exp = ref_parse(table[target], argv)
            rec = memfs.Recorder()
            old = config.log
            config.log = rec
            try:
                config._compilers = copy.deepcopy(_PRISTINE["c"])  # every path starts from the pristine shipped definitions
                if P.get("seq"):
                    config.ArgumentParser("/usr/local/bin/" + name).parse_args(list(first))
                    rec.records.clear()
                cfgs = config.ArgumentParser("/opt/bin/" + name).parse_args(list(argv))
            finally:
                config.log = old
    except Exception as e:
        if P.get("_replay"):
            LAST.update(compiler=name, argv=argv, exception=repr(e))
        return False
    why = _compare(cfgs, exp)
    if why is None and rec.warnings():
        why = "unexpected warnings %s" % rec.warnings()
    if P.get("_replay"):
        LAST.update(compiler=name, argv=argv, why=why,
                    observed=[(c.pass_name, c.defines, c.include_paths, c.include_files) for c in cfgs])
    return why is None


# --------------------------------------------------------------------------
# a user configuration (.cbi/config) extends the built-in one

USER_FRAGS = [
    '[compiler.mycc]\noptions = ["-DMYCC"]\n',
    '[compiler.gcc]\noptions = ["-DUSER_GCC", "-I", "/user/inc"]\n',
    '[[compiler.gcc.parser]]\nflags = ["-fuser"]\naction = "append_const"\ndest = "modes"\nconst = "user"\n'
    '[[compiler.gcc.modes]]\nname = "user"\ndefines = ["USERMODE"]\n',
    '[compiler.c99]\nalias_of = "gcc"\n',
    '[compiler."g++"]\noptions = ["-DGXX"]\n',
    '[[compiler.gcc.modes]]\nname = "openmp"\ndefines = ["_OPENMP=201511"]\n',
]
PROBES = ["gcc", "g++", "c99", "mycc", "clang"]
PROBE_FLAGS = [[], ["-fopenmp"], ["-fuser", "-DX"], ["-fopenmp", "-fuser"]]


def _merge_reference(builtin, bits):
    """independent model of 'the user configuration extends the built-in one'"""
    import tomllib

    table = copy.deepcopy(builtin)
    # TOML does not allow a table to be opened twice: fragments of one compiler are merged textually per compiler
    text = _user_text(bits)
    user = tomllib.loads(text).get("compiler", {}) if text else {}
    for name, d in user.items():
        if name not in table:
            table[name] = copy.deepcopy(d)
            continue
        if "alias_of" in d:
            table[name] = copy.deepcopy(d)
            continue
        cur = table[name]
        cur.pop("alias_of", None)
        cur.setdefault("options", [])
        cur["options"] = list(cur["options"]) + list(d.get("options", []))
        cur["parser"] = list(cur.get("parser", [])) + list(d.get("parser", []))
        for key in ("modes", "passes"):
            have = {m["name"]: m for m in cur.get(key, [])}
            for m in d.get(key, []):
                have[m["name"]] = m
            cur[key] = list(have.values())
    return table


def _user_text(bits):
    parts = []
    gcc = []
    if bits[1]:
        # (detached spellings twice: the tokens "-I" and "-D" repeat, and every one of them must survive the merge)
        gcc.append('options = ["-DUSER_GCC", "-I", "/user/inc", "-I", "/user/inc2", "-D", "U2", "-D", "U3"]\n')
    tail = []
    if bits[2]:
        tail.append('[[compiler.gcc.parser]]\nflags = ["-fuser"]\naction = "append_const"\ndest = "modes"\nconst = "user"\n')
        tail.append('[[compiler.gcc.modes]]\nname = "user"\ndefines = ["USERMODE"]\n')
    if bits[5]:
        tail.append('[[compiler.gcc.modes]]\nname = "openmp"\ndefines = ["_OPENMP=201511"]\n')
    if gcc or tail:
        parts.append("[compiler.gcc]\n" + "".join(gcc) + "".join(tail))
    if bits[0]:
        parts.append(USER_FRAGS[0])
    if bits[3]:
        parts.append(USER_FRAGS[3])
    if bits[4]:
        parts.append(USER_FRAGS[4])
    return "\n".join(parts)


def h_user(u0: bool, u1: bool, u2: bool, u3: bool, u4: bool, u5: bool, f: int) -> bool:
    """
    pre: f == P["f"]
    post: _
    """
    import codebasin.config as config

    bits = [bool(u0), bool(u1), bool(u2), bool(u3), bool(u4), bool(u5)]
    fi = None
    for k in range(4):
        if f == k:
            fi = k
    STATS["compared"] += 1
    if P.get("_twin"):
        return False
    why = None
    with _untraced():
        name = P["compiler"]
        argv = PROBE_FLAGS[fi] + ["x.c"]
        fs = memfs.MemFS("/r")
        text = _user_text(bits)
        if text:
            fs.add("/r/.cbi/config", text)
        merged = _merge_reference(_load_builtin(), bits)
        rec = memfs.Recorder()
        saved = (config.log, config.os, getattr(config, "open", None), config._compilers)
        config.log = rec
        config.os = memfs.OSFacade(fs)
        config.open = fs.open
        try:
            config._compilers = None
            cfgs = config.ArgumentParser("/usr/bin/" + name).parse_args(list(argv))
            if name in merged:
                target = name
                hops = 0
                while merged[target].get("alias_of") and hops < 5:
                    target = merged[target]["alias_of"]
                    hops += 1
                exp = ref_parse(merged[target], argv)
            else:
                exp = ref_parse({}, argv)
            why = _compare(cfgs, exp)
        except Exception as e:
            why = "exception " + repr(e)
        finally:
            config.log, config.os = saved[0], saved[1]
            if saved[2] is None:
                del config.open
            else:
                config.open = saved[2]
            config._compilers = None
    if P.get("_replay"):
        LAST.update(compiler=P["compiler"], user_config=_user_text(bits), argv=PROBE_FLAGS[fi], why=why)
    return why is None


# --------------------------------------------------------------------------
# attribution over passes


def h_attr(fl: bool, second: bool) -> bool:
    """
    post: _
    """
    import codebasin
    import codebasin.config as config
    import codebasin.finder as finder

    sc = ATTR[P["scenario"]]
    guard, cc, flag = sc["guard"], sc["cc"], sc["flag"]
    files = {"/r/k.cpp": ["#ifdef " + guard, "@", "#else", "@", "#endif", "#ifdef OTHER", "@", "#endif", "@"]}
    fs = scen.build_fs(files)
    db = [{"directory": "/r", "file": "k.cpp", "arguments": [cc] + (flag if fl else []) + ["-c", "k.cpp"]}]
    if second:
        db.append({"directory": "/r", "file": "k.cpp", "arguments": ["gcc", "-DOTHER", "-c", "k.cpp"]})
    STATS["compared"] += 1
    if P.get("_twin"):
        return False
    old = codebasin.CompilationDatabase.from_file
    codebasin.CompilationDatabase.from_file = classmethod(lambda cls, path: cls.from_json(db))
    try:
        with _untraced(), memfs.mounted(fs) as rec:
            entries = config.load_database("/r/cc.json", "/r")
            state = finder.find("/r", memfs.FakeCodeBase(["/r/k.cpp"]), {"p": entries}, summarize_only=True)
    except Exception as e:
        if P.get("_replay"):
            LAST.update(exception=repr(e))
        return False
    finally:
        codebasin.CompilationDatabase.from_file = old
    got, _dup = scen.attribution(state)
    lines = {ln for (_f, ln) in got.get("p", set())}
    uses_guard = any(guard in " ".join(e["defines"]) for e in entries)
    exp = {1, 3, 5, 6, 8, 9}
    if uses_guard:
        exp.add(2)
    if any(guard not in " ".join(e["defines"]) for e in entries):
        exp.add(4)
    if second:
        exp.add(7)
    # independent expectation of which passes exist
    want_guard = sc["expect_guard"](fl)
    ok = lines == exp and uses_guard == want_guard
    if P.get("_replay"):
        LAST.update(database=db, passes=[e["pass_name"] for e in entries], attributed=sorted(lines), expected=sorted(exp),
                    guard_defined_in_some_pass=uses_guard, guard_expected=want_guard)
    return ok


ATTR = {
    "openmp": dict(guard="_OPENMP", cc="g++", flag=["-fopenmp"], expect_guard=lambda fl: fl),
    "cuda": dict(guard="__CUDA_ARCH__", cc="nvcc", flag=["--gpu-architecture=sm_80"], expect_guard=lambda fl: True),
    "sycl": dict(guard="__SYCL_DEVICE_ONLY__", cc="icpx", flag=["-fsycl"], expect_guard=lambda fl: True),
}


def _attr_prepare():
    pass


def replay(obd, cex):
    import sys

    mod = sys.modules[__name__]
    params = dict(obd["params"])
    mod.P = dict(params, _twin=False, _replay=True)
    mod.LAST = {}
    prepare(mod.P)
    args, kw = cex
    try:
        ok = getattr(mod, obd["func"])(*args, **kw)
    except Exception as e:
        ok = False
        LAST.update(exception=repr(e))
    return dict(reproduced=(ok is False), detail=dict(LAST))


def obligations(tier, known):
    obs = []
    n = 4 if tier == "quick" else 5
    for fx in range(n + 2):
        obs.append(Ob(id="alias/n%d/t0=%d" % (n, fx), kind="ch", module=__name__, func="h_alias", params=dict(n=n, fix0=fx),
                      timeout=300 if n == 4 else 1500, group="alias"))
    for a in (False, True):
        for b in (False, True):
            for c in (False, True):
                obs.append(Ob(id="compose/%d%d%d" % (a, b, c), kind="ch", module=__name__, func="h_compose",
                              params=dict(fix=[a, b, c]), timeout=400, group="compose"))
    for name in BUILTIN_FLAGS:
        obs.append(Ob(id="builtin/" + name, kind="ch", module=__name__, func="h_builtin", params=dict(compiler=name), timeout=200,
                      group="builtin"))
        obs.append(Ob(id="builtin-seq/" + name, kind="ch", module=__name__, func="h_builtin", params=dict(compiler=name, seq=True),
                      timeout=300, group="builtin"))
    for name in PROBES:
        for fl in range(4):
            obs.append(Ob(id="user-config/%s/flags%d" % (name, fl), kind="ch", module=__name__, func="h_user",
                          params=dict(compiler=name, f=fl), timeout=400, group="user"))
    for sc in ATTR:
        obs.append(Ob(id="attr/" + sc, kind="ch", module=__name__, func="h_attr", params=dict(scenario=sc), timeout=200,
                      group="attr"))
    return obs


CLAIM = ("Every functional alias graph within the bound resolves (or is reported) as specified and never hangs; for every "
         "combination of command-line flags and implicit options of a generated compiler definition and of the four shipped ones, "
         "the configurations produced by the real parse_args equal an independent reference of the composition rules, and implicit "
         "options behave exactly like appended ones - all decided by exhausting the symbolic bits.")
LEVEL_NOTE = ("Trusted: CrossHair/z3, the reference composition model in this file, tomllib. Bounded: <= 5 compilers per alias graph, "
              "one generated definition, documented flags of the shipped definitions; user-configuration merging is checked for "
              "6 fragment kinds (new compiler, extra options, extra rule+mode, new alias, alias turned into a compiler, mode redefined).")
