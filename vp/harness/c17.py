"""C17 - Fortran sources: comment/continuation handling and preprocessor conditionals.

lines/  symbolic W-method as in C05, on .f90 texts: cover prefix . m symbolic characters . suffix through the real
        FileParser (fortran_cleaner, fortran_file_source, the C pass in directives_only mode) vs vp.refs.ref_flex
cond/   conditional selection inside .F90 files: C01's rendered programs with Fortran statement lines and symbolic -D
        classes through the real finder.find vs the reference preprocessor; a .F90 that includes a .h (language
        inheritance)
"""

from __future__ import annotations

import itertools
from collections import Counter

from vp import memfs, scen
from vp.driver import Ob
from vp.harness import c01
from vp.refs import ref_cpp, ref_flex

PROPERTY = "C17"
LEVEL = "model_checking"
ENGINE = "crosshair+z3"
TECHNIQUE = ("CrossHair symbolic execution of the real Fortran line cleaner/parser on cover-prefix + symbolic characters + suffix texts "
             "against a reference scanner; conditional selection against the reference preprocessor")
FUNCTIONS = ["codebasin/file_source.py:fortran_cleaner.process/dir_check", "codebasin/file_source.py:fortran_file_source",
             "codebasin/file_source.py:c_file_source(directives_only=True)", "codebasin/file_source.py:c_cleaner.process (directives_only)",
             "codebasin/language.py:FileLanguage", "codebasin/file_parser.py:FileParser.parse_file",
             "codebasin/preprocessor.py:IncludeNode.evaluate_for_platform (language inheritance)", "codebasin/finder.py:find"]
STUBS = ["file_parser.open -> in-memory text file; module loggers -> recorder",
         "Lexer.tokenize on directive lines -> fixed '#pragma' tokens while under CrossHair in lines/ (as in C05)"]
ASSUMPTIONS = [
    "alphabet: printable ASCII without backslash (cpp would splice it, Fortran gives it no meaning), space, tab, newline",
    "texts outside the property per ref_flex: a preprocessor line inside a continued character literal, unterminated character literal, '&' alone on a line, continuation pending at end of file "
    "or across a '#' line, quotes or slashes inside '#' lines (C comment rules there are C05's subject)",
    "a directive sentinel is '!' [letters] '$' as the first non-blank characters of a line",
    "line classification has no system oracle (gfortran -E does not report it); conditional selection is cross-checked with ref_cpp",
]
BOUNDS = {"quick": "lines/: 18 cover prefixes x 10 suffixes x 1 symbolic character; cond/: skeletons <= 4 nodes x 2 renderings x 5x3 -D classes",
          "thorough": "lines/: 2 symbolic characters; cond/: <= 5 nodes x 4 renderings"}
EXPLANATION = ("As C05, for free-form Fortran: each obligation parses prefix + m symbolic characters + suffix with the real FileParser on a "
               ".f90 file and compares counted lines, '#' directive lines and total_sloc with the reference scanner over all paths. "
               "cond/ re-uses C01's program renderings in .F90 files.")

P = {}
STATS = Counter()
LAST = {}

COVER = [
    ("start", ""), ("code", "a"), ("comment", "a !c"), ("sq", "a 'k"), ("dq", 'a "k'), ("amp", "a &"), ("cont-bol", "a &\n"),
    ("cont-sq", "a 'k&\n"), ("bang", "!"), ("bang-letters", "!ab"), ("directive", "#d"), ("cont-comment", "a &\n!c\n"),
    ("cont-sq-amp", "a 'k&\n  &"), ("blank", "  "), ("cont-blank", "a &\n\n"),
    ("sq-amp", "a 'k&"), ("dq-amp", 'a "k &'), ("sq-amp-blank", "a 'k& "),
]
SUFFIX = [
    ("nl", "\nb\n"), ("close-sq", "'\nb\n"), ("close-dq", '"\nb\n'), ("amp", "&\nc\n"), ("dollar", "$x\nb\n"), ("comment", " !z\nb\n"),
    ("hash", "\n#y\nz\n"), ("amp-comment", "&\n!m\n\n c\n"),
    ("bang-close-sq", "!z'\n!c\nd\n"), ("bang-close-dq", '!z"\n!c\nd\n'),
]


def _alpha_ok(s):
    for c in s:
        o = ord(c)
        if not ((32 <= o < 127 and o != 92) or o == 9 or o == 10):
            return False
    return True


def _pre(seg):
    return P["mmin"] <= len(seg) <= P["m"] and _alpha_ok(seg)


def _parse(text, name="/r/t.f90"):
    import codebasin.file_parser as file_parser
    import codebasin.preprocessor as pp

    fs = memfs.MemFS("/r")
    fs.add(name, "")
    fs.files[name] = text
    real_tokenize = pp.Lexer.tokenize
    if not P.get("_replay"):
        pp.Lexer.tokenize = lambda self: [pp.Operator(self.line, 0, False, "#"), pp.Identifier(self.line, 1, False, "pragma")]
    try:
        with memfs.mounted(fs):
            tree = file_parser.FileParser(name).parse_file(summarize_only=True)
    finally:
        pp.Lexer.tokenize = real_tokenize
    code, dirs = [], []
    ORDER[:] = []
    for node in tree.walk():
        if isinstance(node, pp.DirectiveNode):
            dirs.append(tuple(node.lines))
            ORDER.append(list(node.lines))
        elif isinstance(node, pp.CodeNode):
            code.append(list(node.lines))
            ORDER.append(list(node.lines))
    return code, dirs, tree.root.total_sloc


def _order_problem(order):
    prev = 0
    for ls in order:
        if ls and min(ls) <= prev:
            return "a node after line %d holds the earlier line %d" % (prev, min(ls))
        if ls:
            prev = max(ls)
    return ""


ORDER = []  # the line lists of the code and directive nodes of the last _parse, in tree order


def h_text(seg: str) -> bool:
    """
    pre: _pre(seg)
    post: _
    """
    text = P["prefix"] + seg + P["suffix"]
    ref = ref_flex.classify(text)
    if not ref.ok:
        return True
    for fid in P.get("regions", []):
        if _region(fid, text):
            return True
    w = P.get("witness")
    if w and not _region(w, text):
        return True
    STATS["compared"] += 1
    if P.get("_twin"):
        return False
    try:
        code, dirs, sloc = _parse(text)
    except Exception as e:
        if P.get("_replay"):
            LAST.update(text=text, exception=repr(e), expected_counted=sorted(ref.counted))
        return False
    seen = []
    for ls in code:
        seen.extend(ls)
    for d in dirs:
        seen.extend(d)
    s = set(seen)
    why = ""
    if len(s) != len(seen):
        why = "a line is in two nodes"
    elif s != ref.counted:
        why = "counted lines differ"
    elif sorted(dirs) != sorted(ref.directives):
        why = "directive lines differ"
    elif sloc != len(ref.counted):
        why = "total_sloc differs"
    else:
        # a directive splits the statement lines around it: in tree order the nodes' lines never go backwards (a line
        # before a directive that ended up in a node after it would be selected by the wrong branch)
        why = _order_problem(ORDER)
    if P.get("_replay"):
        LAST.update(text=text, why=why, counted=sorted(s), expected_counted=sorted(ref.counted), directives=sorted(dirs),
                    expected_directives=sorted(ref.directives), total_sloc=sloc)
    return why == ""


def _region(fid, text):
    return False


# ---- conditional selection in .F90 ------------------------------------------


def _fs_cond():
    lines = c01.render(P["sk"], P["r"])
    if P.get("amp"):
        # every statement line but the last is continued: directives then sit between the lines of one statement
        code = [i for i, l in enumerate(lines) if not l.lstrip().startswith("#")]
        lines = [l + " &" if i in code[:-1] else l for i, l in enumerate(lines)]
    files = {"/r/f.F90": lines}
    if P.get("inherit"):
        files = {"/r/f.F90": ['#include "inc.h"'] + lines, "/r/inc.h": ["! a Fortran comment in a header", "#ifdef A", "@", "#endif",
                                                                         "x = 'it''s' ! trailing"]}
    return scen.build_fs(files)


def h_cond(ca: int, cb: int) -> bool:
    """
    pre: 0 <= ca < P["na"] and 0 <= cb < P["nb"]
    post: _
    """
    defines = []
    for k in range(5):
        if ca == k and c01.CLASSES[k] is not None:
            defines.append(c01.CLASSES[k])
    for k in range(5):
        if cb == k and c01.BCLASSES[k] is not None:
            defines.append(c01.BCLASSES[k])
    why = None
    with scen.untraced():
        fs = _fs_cond()
        conf = {"p": [scen.entry("/r/f.F90", defines)]}
        try:
            exp, _tus = ref_cpp.run_platforms(fs, conf)
        except ref_cpp.Diagnostic:
            return True
        STATS["compared"] += 1  # (after the reference: programs it rejects for every -D class must show up as vacuous)
        if P.get("_twin"):
            return False
        if P.get("inherit"):
            # the header is parsed with the including file's language: its '!' comment line is not counted
            exp["p"].discard(("/r/inc.h", 1))
        try:
            # the header is not a member of the code base: it is parsed on demand, with the language of its includer
            state, rec = scen.run_cbi(fs, conf, ["/r/f.F90"])
            diff = scen.compare(state, exp, ["p"])
            if diff is not None:
                why = str(diff)
        except Exception as e:
            why = "exception " + repr(e)
    if P.get("_replay"):
        LAST.update(program={k: v for k, v in fs.files.items()}, defines=defines, why=why)
    return why is None


def replay(obd, cex):
    import os
    import shutil
    import sys
    import tempfile

    mod = sys.modules[__name__]
    mod.P = dict(obd["params"], _twin=False, _replay=True)
    mod.LAST = {}
    args, kw = cex
    try:
        ok = getattr(mod, obd["func"])(*args, **kw)
    except Exception as e:
        ok = False
        LAST.update(exception=repr(e))
    detail = dict(LAST)
    if ok is not False:
        return dict(reproduced=False, detail=detail)
    if obd["func"] == "h_text":
        d = tempfile.mkdtemp(prefix="vp_c17_")
        try:
            import codebasin.file_parser as file_parser
            import codebasin.preprocessor as pp

            p = os.path.join(d, "t.f90")
            with open(p, "w") as f:
                f.write(detail["text"])
            ref = ref_flex.classify(detail["text"])
            try:
                tree = file_parser.FileParser(p).parse_file(summarize_only=True)
                lines = []
                order = []
                for node in tree.walk():
                    if isinstance(node, pp.CodeNode):
                        lines.extend(node.lines)
                        order.append(list(node.lines))
                bad = sorted(lines) != sorted(ref.counted) or tree.root.total_sloc != len(ref.counted) or _order_problem(order) != ""
                detail["disk_node_order"] = order
                detail["disk_counted"] = sorted(lines)
            except Exception as e:
                bad = True
                detail["disk_exception"] = repr(e)
            return dict(reproduced=bad, detail=detail)
        finally:
            shutil.rmtree(d, ignore_errors=True)
    return dict(reproduced=True, detail=detail)


def obligations(tier, known):
    regions = sorted(known)
    obs = []
    m = 1 if tier == "quick" else 2
    rep = ["a", "1", " ", "\t", "\n", "!", "&", '"', "'", "$", "#", "/"]
    for cname, pre in COVER:
        for sname, suf in SUFFIX:
            if not any(ref_flex.classify(pre + "".join(t) + suf).ok for t in itertools.product(rep, repeat=m)):
                continue
            obs.append(Ob(id="lines/%s/%s/m%d" % (cname, sname, m), kind="ch", module=__name__, func="h_text",
                          params=dict(prefix=pre, suffix=suf, m=m, mmin=m, regions=regions), timeout=150 if m == 1 else 420,
                          group="lines"))
    tmax, R, na, nb = (4, 2, 5, 3) if tier == "quick" else (5, 4, 5, 5)
    for sk in c01.skeletons(tmax):
        for r in range(R):
            if c01._has_clean_run(sk, r, na, nb):
                obs.append(Ob(id="cond/%s/r%d" % (sk, r), kind="ch", module=__name__, func="h_cond",
                              params=dict(sk=sk, r=r, na=na, nb=nb), timeout=240, group="cond"))
    for sk in [k for k in c01.skeletons(5 if tier == "quick" else 6) if k.count("C") >= 2]:
        if c01._has_clean_run(sk, 0, na, nb):
            obs.append(Ob(id="cond-continued/%s/r0" % sk, kind="ch", module=__name__, func="h_cond",
                          params=dict(sk=sk, r=0, na=na, nb=nb, amp=True), timeout=240, group="cond"))
    obs.append(Ob(id="cond/inherit/ICLN", kind="ch", module=__name__, func="h_cond", params=dict(sk="ICLN", r=1, na=5, nb=3, inherit=True),
                  timeout=240, group="cond"))
    return obs


def mc_coverage(results):
    compared = sum(r.get("compared", 0) for r in results)
    return dict(states=len(COVER), transitions=max(1, compared), traces_validated_against_impl=compared, exhaustive=False)


CLAIM = ("Bounded model checking of the product of CBI's Fortran cleaner (behind the directives-only C pass) and a reference scanner: from "
         "18 reference states every 1/2-character continuation over the alphabet, observed through 10 suffixes, gives the reference's "
         "counted lines; C preprocessor conditionals in .F90 files select lines exactly as the reference preprocessor does for all -D classes.")
LEVEL_NOTE = ("Trusted: CrossHair/z3, vp/refs/ref_flex.py (no system oracle for Fortran line classification), vp/refs/ref_cpp.py. Outside: "
              "fixed-form Fortran (get_file_source has no branch for it), Hollerith/BOZ forms, ';'-separated statements, backslashes.")
