"""C16 - the duplicates report lists exactly the sets of byte-identical files.

The real report.find_duplicates runs on n files of a MemFS.  Symbolic: the content of each file (index into a small
pool that contains an empty file, two contents differing in the last byte and a strict prefix), the *digest class* of
each pool content (so that different contents may collide: the pairwise confirmation loop exists for exactly that),
which files are symbolic links and which are not members of the code base.  Oracle: the byte-wise partition of the
non-link member files, restricted to classes of size >= 2.
"""

from __future__ import annotations

from collections import Counter

from vp import memfs, scen
from vp.driver import Ob

PROPERTY = "C16"
LEVEL = "other"
ENGINE = "crosshair+z3"
TECHNIQUE = "CrossHair-enumerated symbolic contents, digest collisions, link and membership bits over the real find_duplicates"
FUNCTIONS = ["codebasin/report.py:find_duplicates"]
STUBS = ["real/: none (real files, real SHA-512, real filecmp)", "dup/: report.hashlib.file_digest -> digest label chosen by the symbolic digest class of the content (equal content => equal digest, "
         "different contents MAY collide)", "report.filecmp.cmp -> byte comparison of the in-memory contents",
         "report.open / report.Path -> MemFS (is_symlink answers from the symbolic link bits)"]
ASSUMPTIONS = ["SHA-512 and filecmp themselves are outside; the print order of groups is outside (groups are compared as sets)",
               "once the indices are decided the real code runs untraced on that leaf"]
BOUNDS = {"quick": "4 files, pool of 3 contents, 2 digest classes (every collision pattern), link bit on 2 files, membership bit on 1 file",
          "thorough": "5 files, pool of 4 contents, 2 digest classes, link bits on 2 files, membership bits on 2 files"}
EXPLANATION = ("Content indices, digest classes (collisions included), link bits and membership bits are bounded symbolic values exhausted by "
               "CrossHair; on each leaf the real find_duplicates result, as a set of frozensets, is compared with the byte-wise partition.")

P = {}
STATS = Counter()
LAST = {}

POOL = [b"", b"abc", b"abd", b"ab"]
NAMES = ["/r/f0.c", "/r/f1.c", "/r/d/f2.c", "/r/d/f3.h", "/r/f4.c"]


class _Digest:
    def __init__(self, label):
        self.label = label

    def hexdigest(self):
        return "digest-%d" % self.label


def _pre(cs, gs, n, npool):
    for i in range(5):
        if i < n:
            if not (0 <= cs[i] < npool):
                return False
        elif cs[i] != 0:
            return False
    for i in range(4):
        if i < npool:
            if not (0 <= gs[i] < 2):
                return False
        elif gs[i] != 0:
            return False
    fx = P.get("fix")
    if fx is not None and (cs[0] != fx[0] or cs[1] != fx[1]):
        return False
    return True


def h_dup(c0: int, c1: int, c2: int, c3: int, c4: int, g0: int, g1: int, g2: int, g3: int, l0: bool, l1: bool, x0: bool, x1: bool) -> bool:
    """
    pre: _pre([c0, c1, c2, c3, c4], [g0, g1, g2, g3], P["n"], P["npool"])
    post: _
    """
    import codebasin.report as report

    n, npool = P["n"], P["npool"]
    cs, gs = [], []
    for v in (c0, c1, c2, c3, c4):
        for k in range(4):
            if v == k:
                cs.append(k)
    for v in (g0, g1, g2, g3):
        for k in range(2):
            if v == k:
                gs.append(k)
    links = [bool(l0), bool(l1), False, False, False]
    excl = [bool(x0), bool(x1) and P.get("xbits", 1) > 1, False, False, False]
    STATS["compared"] += 1
    if P.get("_twin"):
        return False
    with scen.untraced():
        content = {NAMES[i]: POOL[cs[i]] for i in range(n)}
        members = [NAMES[i] for i in range(n) if not excl[i]]
        linkset = {NAMES[i] for i in range(n) if links[i]}

        class FP(memfs.make_path_class(memfs.MemFS("/r"))):
            def is_symlink(self):
                return self.p in linkset

        class FakeHashlib:
            @staticmethod
            def file_digest(f, algo):
                data = f.read()
                return _Digest(gs[POOL.index(data)])

        class FakeFilecmp:
            @staticmethod
            def cmp(a, b, shallow=True):
                return content[str(a)] == content[str(b)]

        import io

        saved = (report.Path, report.hashlib, report.filecmp, getattr(report, "open", None))
        report.Path, report.hashlib, report.filecmp = FP, FakeHashlib, FakeFilecmp
        report.open = lambda p, mode="r": io.BytesIO(content[str(p)])
        try:
            got = report.find_duplicates(memfs.FakeCodeBase(members))
            why = None
        except Exception as e:
            got, why = None, "exception " + repr(e)
        finally:
            report.Path, report.hashlib, report.filecmp = saved[:3]
            if saved[3] is None:
                del report.open
            else:
                report.open = saved[3]
        if why is None:
            gotsets = [frozenset(str(p) for p in g) for g in got]
            part = {}
            for m in members:
                if m not in linkset:
                    part.setdefault(content[m], set()).add(m)
            want = {frozenset(v) for v in part.values() if len(v) >= 2}
            if len(gotsets) != len(set(gotsets)):
                why = "a group is listed twice"
            elif set(gotsets) != want:
                why = "groups %s != byte-wise partition %s" % (sorted(sorted(g) for g in gotsets), sorted(sorted(g) for g in want))
    if P.get("_replay"):
        LAST.update(contents={k: v.decode() for k, v in content.items()}, digest_class={POOL[i].decode(): gs[i] for i in range(npool)},
                    links=sorted(linkset), members=members, why=why)
    return why is None


REAL_POOL = [b"", b"x" * 70000, b"x" * 69999 + b"y", b"x" * 70001, b"line\r\nline\n", b"line\nline\n"]


def h_real(c0: int, c1: int, c2: int, c3: int, l0: bool, lfirst: bool) -> bool:
    """
    pre: 0 <= c0 < 6 and 0 <= c1 < 6 and 0 <= c2 < 6 and 0 <= c3 < 6 and c0 == P["fix"]
    post: _
    """
    # the real hashlib / filecmp / open on real files: contents that differ only in the last byte, only in length,
    # beyond any read buffer, or only in line endings
    import os
    import shutil
    import tempfile

    cs = []
    for v in (c0, c1, c2, c3):
        for k in range(6):
            if v == k:
                cs.append(k)
    STATS["compared"] += 1
    if P.get("_twin"):
        return False
    why = None
    with scen.untraced():
        import codebasin.report as report

        d = os.path.realpath(tempfile.mkdtemp(prefix="vp_c16_"))
        try:
            names = ["a.c", "b.c", "sub/c.c", "sub/d.h"]
            os.makedirs(d + "/sub")
            content = {}
            for n, ci in zip(names, cs):
                with open(os.path.join(d, n), "wb") as f:
                    f.write(REAL_POOL[ci])
                content[os.path.join(d, n)] = REAL_POOL[ci]
            members = list(content)
            if l0:
                # a link to a.c, enumerated after its target or (lfirst) before every file: the target keeps its place
                # in its group either way
                os.symlink(os.path.join(d, "a.c"), os.path.join(d, "lnk.c"))
                if lfirst:
                    members.insert(0, os.path.join(d, "lnk.c"))
                else:
                    members.append(os.path.join(d, "lnk.c"))
            got = {frozenset(str(p) for p in g) for g in report.find_duplicates(memfs.FakeCodeBase(members))}
            part = {}
            for m, b in content.items():
                part.setdefault(b, set()).add(m)
            want = {frozenset(v) for v in part.values() if len(v) >= 2}
            if got != want:
                why = "groups %s != byte-wise partition %s" % (sorted(sorted(os.path.basename(x) for x in g) for g in got),
                                                              sorted(sorted(os.path.basename(x) for x in g) for g in want))
        except Exception as e:
            why = "exception " + repr(e)
        finally:
            shutil.rmtree(d, ignore_errors=True)
    if P.get("_replay"):
        LAST.update(content_index=cs, link=bool(l0), link_enumerated_first=bool(lfirst), why=why)
    return why is None


def replay(obd, cex):
    """native re-run; when the counterexample needs no digest collision, also real files + real SHA-512/filecmp on disk"""
    import os
    import shutil
    import sys
    import tempfile

    mod = sys.modules[__name__]
    mod.P = dict(obd["params"], _twin=False, _replay=True)
    mod.LAST = {}
    args, kw = cex
    if obd["func"] == "h_real":
        try:
            ok = h_real(*args, **kw)
        except Exception as e:
            ok = False
            LAST.update(exception=repr(e))
        return dict(reproduced=(ok is False), detail=dict(LAST))
    try:
        ok = h_dup(*args, **kw)
    except Exception as e:
        ok = False
        LAST.update(exception=repr(e))
    detail = dict(LAST)
    if ok is not False:
        return dict(reproduced=False, detail=detail)
    try:
        import codebasin
        import codebasin.report as report

        d = tempfile.mkdtemp(prefix="vp_c16_")
        try:
            for name, text in detail["contents"].items():
                p = d + name
                os.makedirs(os.path.dirname(p), exist_ok=True)
                if name in detail["links"]:
                    continue
                with open(p, "w") as f:
                    f.write(text)
            got = report.find_duplicates(memfs.FakeCodeBase([d + m for m in detail["members"] if m not in detail["links"]]))
            gotsets = {frozenset(str(p)[len(d):] for p in g) for g in got}
            part = {}
            for m in detail["members"]:
                if m not in detail["links"]:
                    part.setdefault(detail["contents"][m], set()).add(m)
            want = {frozenset(v) for v in part.values() if len(v) >= 2}
            detail["disk_result_wrong"] = gotsets != want
        finally:
            shutil.rmtree(d, ignore_errors=True)
    except Exception as e:
        detail["disk_exception"] = repr(e)
    return dict(reproduced=True, detail=detail)


def obligations(tier, known):
    obs = []
    n, npool, xb = (4, 3, 1) if tier == "quick" else (5, 4, 2)
    for a in range(npool):
        for b in range(npool):
            obs.append(Ob(id="dup/n%d/c0=%d,c1=%d" % (n, a, b), kind="ch", module=__name__, func="h_dup",
                          params=dict(n=n, npool=npool, fix=[a, b], xbits=xb), timeout=900, group="dup"))
    for a in range(6):
        obs.append(Ob(id="real/c0=%d" % a, kind="ch", module=__name__, func="h_real", params=dict(fix=a), timeout=600, group="real"))
    return obs


CLAIM = ("For every assignment of pool contents to 4/5 files, every digest-collision pattern, and the link/membership bits within the bound, "
         "find_duplicates returns exactly the byte-wise equivalence classes of size >= 2 of the non-link member files (real/: the real hashlib/filecmp on disk, a link enumerated before or after its target) - exhausted by CrossHair.")
LEVEL_NOTE = ("Trusted: CrossHair/z3 for the enumeration; the stubs for hashlib/filecmp/open/Path (their contracts: equal content => equal digest; "
              "cmp compares bytes). Bounded: 4/5 files, 3/4 contents.")
