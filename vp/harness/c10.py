"""C10 - excluding files removes their lines from the counts and changes nothing else.

Membership of every file in the code base is a symbolic bool (it abstracts "matched by an exclude pattern or lying
outside the root"; pattern semantics are C09's subject).  The real finder.find + ParserState.get_setmap run on a MemFS.
  (i)  per-line attribution of every parsed file is the same whatever the membership bits are, and equals the
       reference preprocessor (which always preprocesses everything that is compiled or included)
  (ii) get_setmap(members) == the per-platform-set sums over exactly the member files' counted lines
"""

from __future__ import annotations

from collections import Counter

from vp import memfs, scen
from vp.driver import Ob
from vp.harness import c04
from vp.refs import ref_cpp

PROPERTY = "C10"
LEVEL = "other"
ENGINE = "crosshair+z3"
TECHNIQUE = "CrossHair-enumerated symbolic membership and -D bits over the real finder.find/get_setmap against a reference preprocessor"
FUNCTIONS = ["codebasin/__main__.py:_main (up to finder.find)", "codebasin/tree.py:cli/_tree (up to finder.find)", "codebasin/finder.py:find", "codebasin/finder.py:ParserState.insert_file/associate/get_setmap",
             "codebasin/preprocessor.py:IncludeNode.evaluate_for_platform"]
STUBS = ["vp.memfs mounted; the CodeBase is a FakeCodeBase whose member list is the symbolic input"]
ASSUMPTIONS = ["exclusion by pattern / location is abstracted as one membership bit per file (gitignore semantics: C09)",
               "cli/: the real codebasin.__main__._main and codebasin.tree.cli run on a scratch tree up to their call of finder.find (replaced by a probe that lists the CodeBase); pattern semantics themselves are C09's subject",
               "once the bits are decided the real code runs untraced on that leaf"]
BOUNDS = {"quick": "5 scenarios with 3-5 files (one header outside the root): all 2^files membership patterns x 2 -D bits x two platforms; cli/: 6 pattern lists (negations, repeats, anchored) x every split into -x / analysis file x 2 tools",
          "thorough": "same (exhausted)"}
EXPLANATION = ("Membership bits and -D bits are symbolic bools exhausted by CrossHair; on every leaf the real finder.find is run with the member "
               "list and with all files, the two attributions and the reference preprocessor's are compared line by line, and get_setmap is "
               "compared with sums recomputed from the attribution for exactly the member files.")

P = {}
STATS = Counter()
LAST = {}
G = c04.GUARD


def t_provider(d):
    files = {
        "/r/main.c": ['#include "cfg.h"', "#ifdef FEATURE", "@", "#else", "@", "#endif", '#include "../ext/out.h"', "#ifdef OUT", "@", "#endif"],
        "/r/cfg.h": G("CFG_H", ["#ifdef X", "#define FEATURE", "#endif", "@"]),
        "/r/util.c": ['#include "cfg.h"', "#ifdef FEATURE", "@", "#endif", "@"],
        "/r/unused.c": ["@", "#ifdef NEVER", "@", "#endif"],
        "/ext/out.h": ["#define OUT", "@"],
    }
    conf = {"p": [scen.entry("/r/main.c", ["X"] if d[0] else []), scen.entry("/r/util.c", [])],
            "q": [scen.entry("/r/main.c", []), scen.entry("/r/util.c", ["X"] if d[1] else [])]}
    return files, conf


def t_compiled_excluded(d):
    files = {
        "/r/a.c": ["#define FROM_A 1", '#include "h.h"', "@"],
        "/r/b.c": ['#include "h.h"', "@"],
        "/r/h.h": ["#if FROM_A", "@", "#else", "@", "#endif", '#include "deep/d.h"'],
        "/r/deep/d.h": ["#pragma once", "#ifdef Y", "@", "#endif", "@"],
    }
    conf = {"p": [scen.entry("/r/a.c", ["Y"] if d[0] else [])], "q": [scen.entry("/r/b.c", ["Y"] if d[1] else [])]}
    return files, conf


def t_forced_excluded(d):
    files = {
        "/r/m.c": ["#ifdef PRE", "@", "#endif", "@", "#ifdef PRE2", "@", "#endif"],
        "/r/pre.h": ["#define PRE", "#ifdef Z", "@", "#endif"],
        "/r/n.c": ["#ifdef PRE", "@", "#else", "@", "#endif"],
        # a forced include without a source-file extension (never a member: members have a recognised extension)
        "/r/prefix": ["#define PRE2", "@"],
    }
    conf = {"p": [scen.entry("/r/m.c", ["Z"] if d[0] else [], [], ["pre.h", "prefix"])],
            "q": [scen.entry("/r/n.c", [], [], ["pre.h"] if d[1] else [])]}
    return files, conf


def t_angle_provider(d):
    """an excludable header that provides a macro, reached with the angle form through -I (and, by a bit, with quotes)"""
    files = {
        "/r/src/main.c": ["#include <config.h>" if d[1] else '#include "../vendor/config.h"', "#ifdef FAST", "@", "#else", "@", "#endif",
                          '#include "common.h"'],
        "/r/src/common.h": ["#ifdef FAST", "@", "#endif", "#include <nested.h>", "#ifdef NESTED", "@", "#endif"],
        "/r/vendor/config.h": ["#define FAST", "@"],
        "/r/vendor/nested.h": ["#ifdef X", "#define NESTED", "#endif", "@"],
        "/r/src/util.c": ["#include <nested.h>", "@"],
    }
    conf = {"p": [scen.entry("/r/src/main.c", ["X"] if d[0] else [], ["/r/vendor"])],
            "q": [scen.entry("/r/src/util.c", [], ["/r/vendor"])]}
    return files, conf


def t_outside_twice(d):
    """an unguarded header OUTSIDE the root directory (a system header found through -I) included twice: the second
    inclusion sees the state the first one left and must be processed again"""
    inc = "#include <bump.h>" if d[1] else '#include "../../sys/bump.h"'
    files = {
        "/r/src/main.c": [inc, "#ifdef LEVEL_2", "@", "#endif", inc, "#ifdef LEVEL_2", "@", "#else", "@", "#endif",
                          "#undef MODE", "#define MODE 2", "#include <mode.h>", "#if MODE_SEEN == 2", "@", "#endif"],
        "/sys/bump.h": ["#ifndef LEVEL_1", "#define LEVEL_1", "#else", "#define LEVEL_2", "#endif", "@",
                        "#define MODE 1", "#include <mode.h>"],
        "/sys/mode.h": ["#undef MODE_SEEN", "#if MODE == 2", "#define MODE_SEEN 2", "#else", "#define MODE_SEEN 1", "#endif",
                        "#ifdef X", "@", "#endif"],
    }
    conf = {"p": [scen.entry("/r/src/main.c", ["X"] if d[0] else [], ["/sys"])]}
    return files, conf


TEMPLATES = {"outside_twice": t_outside_twice, "angle_provider": t_angle_provider, "provider": t_provider, "compiled_excluded": t_compiled_excluded, "forced_excluded": t_forced_excluded}


def _setmap_from(attr, counted, members, plats):
    out = Counter()
    for (fn, ln) in counted:
        if fn in members:
            key = frozenset(p for p in plats if (fn, ln) in attr.get(p, set()))
            out[key] += 1
    return dict(out)


def h_excl(m0: bool, m1: bool, m2: bool, m3: bool, m4: bool, d0: bool, d1: bool) -> bool:
    """
    post: _
    """
    mb = [bool(m0), bool(m1), bool(m2), bool(m3), bool(m4)]
    d = [bool(d0), bool(d1)]
    why = None
    with scen.untraced():
        files, conf = TEMPLATES[P["t"]](d)
        names = sorted(files)
        if any(mb[len(names):]):
            return True
        if any(mb[i] and "." not in n.rsplit("/", 1)[1] for i, n in enumerate(names)):
            return True  # a file without an extension cannot be a member of a code base
        fs = scen.build_fs(files)
        members = [n for i, n in enumerate(names) if mb[i]]
        try:
            exp, _ = ref_cpp.run_platforms(fs, conf)
        except ref_cpp.Diagnostic:
            return True
        STATS["compared"] += 1  # (after the reference: a template it rejects on every path must show up as vacuous)
        if P.get("_twin"):
            return False
        try:
            names_all = [n for n in names if "." in n.rsplit("/", 1)[1]]  # (everything that can be a member)
            st_all, _ = scen.run_cbi(fs, conf, names_all)
            st_ex, _ = scen.run_cbi(fs, conf, members)
            a_all, _d1 = scen.attribution(st_all)
            a_ex, _d2 = scen.attribution(st_ex)
            plats = list(conf)
            # files that are parsed only because they are members (never compiled or included) have no attribution
            for p in plats:
                if a_ex.get(p, set()) != exp[p]:
                    why = "attribution with exclusion differs from the reference for %s: extra %s missing %s" % (
                        p, sorted(a_ex.get(p, set()) - exp[p])[:4], sorted(exp[p] - a_ex.get(p, set()))[:4])
                    break
                if a_all.get(p, set()) != a_ex.get(p, set()):
                    why = "excluding files changed the attribution of platform %s" % p
                    break
            if why is None:
                counted = scen.counted_lines(st_ex)
                want = _setmap_from(a_ex, counted, set(members), plats)
                with memfs.mounted(fs):
                    got = dict(st_ex.get_setmap(memfs.FakeCodeBase(members)))
                got = {k: v for k, v in got.items() if v}
                if got != want:
                    why = "get_setmap %s != sums over member files %s" % (
                        {tuple(sorted(k)): v for k, v in got.items()}, {tuple(sorted(k)): v for k, v in want.items()})
                else:
                    with memfs.mounted(fs):
                        full = dict(st_all.get_setmap(memfs.FakeCodeBase(names_all)))
                    removed = _setmap_from(a_all, scen.counted_lines(st_all), set(names_all) - set(members), plats)
                    for k in set(full) | set(removed) | set(got):
                        if full.get(k, 0) - removed.get(k, 0) != got.get(k, 0):
                            why = "set %s: all %d - excluded %d != %d" % (sorted(k), full.get(k, 0), removed.get(k, 0), got.get(k, 0))
        except Exception as e:
            why = "exception " + repr(e)
    if P.get("_replay"):
        LAST.update(template=P["t"], members=members, dbits=d, why=why)
    return why is None


# --------------------------------------------------------------------------
# cli/: the wiring of -x and [codebase].exclude in the two command-line tools.  The real `codebasin.__main__._main` and
# `codebasin.tree.cli` run on a scratch tree up to the point where they hand the CodeBase to finder.find; the pattern
# list is split at a symbolic position into a -x part and an analysis-file part.

CLI_PATTERNS = [["*.h", "!keep.h"], ["!keep.h", "*.h"], ["sub/", "*.h"], ["b.c", "a.c", "b.c"], ["/*.c", "!/a.c"], ["zz*", "!zz_keep.c", "a.c"]]
CLI_FILES = ["a.c", "keep.h", "other.h", "sub/b.c", "sub/keep.h", "zz_gen.c", "zz_keep.c"]


class _Stop(Exception):
    pass


def _cli_members(tool, xs, fs_, platforms=("p",), select=()):
    import contextlib
    import io
    import json
    import logging
    import os
    import shutil
    import sys
    import tempfile

    import codebasin.finder as finder

    scratch = os.path.realpath(tempfile.mkdtemp(prefix="vp_c10_"))
    seen = {}

    def fake_find(rootdir, codebase, configuration, *a, **k):
        seen["members"] = sorted(os.path.relpath(str(f), scratch) for f in codebase)
        seen["contains"] = sorted(n for n in CLI_FILES if os.path.join(scratch, n) in codebase)
        seen["platforms"] = sorted(configuration)
        seen["entries"] = {k: [os.path.relpath(e["file"], scratch) for e in v] for k, v in configuration.items()}
        raise _Stop()

    log = logging.getLogger("codebasin")
    saved = (os.getcwd(), sys.argv[:], finder.find, log.handlers[:], log.level)
    try:
        for n in CLI_FILES:
            os.makedirs(os.path.dirname(os.path.join(scratch, n)) or scratch, exist_ok=True)
            with open(os.path.join(scratch, n), "w") as f:
                f.write("int x;\n")
        with open(os.path.join(scratch, "cc.json"), "w") as f:
            json.dump([{"directory": scratch, "file": "a.c", "arguments": ["gcc", "-c", "a.c"]}], f)
        with open(os.path.join(scratch, "analysis.toml"), "w") as f:
            if fs_:
                f.write("[codebase]\nexclude = [%s]\n\n" % ", ".join(json.dumps(x) for x in fs_))
            for name in platforms:
                f.write('[platform.%s]\ncommands = "cc.json"\n\n' % name)
        argv = []
        for x in xs:
            argv += ["-x", x]
        for name in select:
            argv += ["-p", name]
        argv.append("analysis.toml")
        os.chdir(scratch)
        finder.find = fake_find
        out = io.StringIO()
        try:
            with contextlib.redirect_stdout(out), contextlib.redirect_stderr(out):
                if tool == 0:
                    import codebasin.__main__ as cbi_main

                    sys.argv = ["codebasin"] + argv
                    cbi_main._main()
                else:
                    import codebasin.tree as cbi_tree

                    cbi_tree.cli(argv)
        except _Stop:
            pass
        return seen
    finally:
        os.chdir(saved[0])
        sys.argv = saved[1]
        finder.find = saved[2]
        for h in log.handlers[:]:
            if h not in saved[3]:
                log.removeHandler(h)
                try:
                    h.close()
                except Exception:
                    pass
        log.setLevel(saved[4])
        shutil.rmtree(scratch, ignore_errors=True)


def _cli_expected(patterns):
    """what CodeBase(root, exclude_patterns=patterns) yields on the same tree (pattern semantics themselves: C09)"""
    import os
    import shutil
    import tempfile

    from codebasin import CodeBase

    scratch = os.path.realpath(tempfile.mkdtemp(prefix="vp_c10_"))
    try:
        for n in CLI_FILES:
            os.makedirs(os.path.dirname(os.path.join(scratch, n)) or scratch, exist_ok=True)
            with open(os.path.join(scratch, n), "w") as f:
                f.write("int x;\n")
        cb = CodeBase(scratch, exclude_patterns=list(patterns))
        return sorted(os.path.relpath(str(f), scratch) for f in cb)
    finally:
        shutil.rmtree(scratch, ignore_errors=True)


def h_cli(lst: int, k: int, tool: int) -> bool:
    """
    pre: 0 <= lst < len(CLI_PATTERNS) and 0 <= k <= 3 and 0 <= tool < 2
    post: _
    """
    li = kk = tl = None
    for j in range(len(CLI_PATTERNS)):
        if lst == j:
            li = j
    for j in range(4):
        if k == j:
            kk = j
    for j in range(2):
        if tool == j:
            tl = j
    pats = CLI_PATTERNS[li]
    if kk > len(pats):
        return True
    STATS["compared"] += 1
    if P.get("_twin"):
        return False
    why = None
    with scen.untraced():
        try:
            exp = _cli_expected(pats)
            got = _cli_members(tl, pats[:kk], pats[kk:])
            if "members" not in got:
                why = "the tool never reached finder.find"
            elif got["members"] != exp or got["contains"] != exp:
                why = "members with -x %s + analysis file %s: %s (in: %s), CodeBase(exclude_patterns=%s): %s" % (
                    pats[:kk], pats[kk:], got["members"], got["contains"], pats, exp)
            elif got["platforms"] != ["p"]:
                why = "platforms %s" % got["platforms"]
        except Exception as e:
            why = "exception " + repr(e)
    if P.get("_replay"):
        LAST.update(tool=["codebasin", "codebasin.tree"][tl], x_patterns=pats[:kk], file_patterns=pats[kk:], why=why)
    return why is None


def obligations(tier, known):
    obs = [Ob(id="excl/" + t, kind="ch", module=__name__, func="h_excl", params=dict(t=t), timeout=400, group="excl") for t in TEMPLATES]
    obs.append(Ob(id="cli/exclude-wiring", kind="ch", module=__name__, func="h_cli", params={}, timeout=400, group="cli"))
    return obs


CLAIM = ("For every subset of excluded files (including compiled files, providers of macros, forced includes and a header outside the root) "
         "and every -D choice in 5 scenarios, per-line attribution is unchanged and equals the reference preprocessor, and the platform-set "
         "table loses exactly the excluded files' lines - exhausted by CrossHair.")
LEVEL_NOTE = ("Trusted: CrossHair/z3 for the enumeration, vp/memfs.py, vp/refs/ref_cpp.py. Bounded: 5 templates, <= 5 files, 2 platforms. "
              "Pattern matching is outside (C09); the CLI's -x / [codebase].exclude wiring is covered for 6 pattern lists x every split x both tools.")
