"""C18 - nothing is dropped silently: unhonoured input is always reported.

inc/    scenarios with dangling includes (existence bits symbolic): the multiset of (file, line, name, user|system)
        parsed from the warnings the real code logs == the multiset the reference preprocessor reports for *reached*
        unresolvable includes, one per occurrence per translation unit
unk/    unknown directives drawn from a catalogue by a symbolic index: exactly one warning naming file and line,
        none for #line/#warning/#error and for recognised directives
forced/ a -include that resolves to no file
db/     compilation-database entries: missing file, unknown compiler, unknown option -> one warning each
agg/    the real WarningAggregator fed with a symbolic number of records per category: printed totals == emitted
"""

from __future__ import annotations

import re
from collections import Counter

from vp import memfs, scen
from vp.driver import Ob
from vp.harness import c04
from vp.refs import ref_cpp

PROPERTY = "C18"
LEVEL = "other"
ENGINE = "crosshair+z3"
TECHNIQUE = "CrossHair symbolic execution of the real include/directive/database warning paths and the warning aggregator"
FUNCTIONS = [
    "codebasin/preprocessor.py:IncludeNode.evaluate_for_platform (warning branch)",
    "codebasin/platform.py:Platform.find_include_file (memoised misses)",
    "codebasin/file_parser.py:FileParser.insert_directive_node", "codebasin/finder.py:find",
    "codebasin/config.py:load_database", "codebasin/config.py:ArgumentParser.__init__/parse_args",
    "codebasin/_detail/logging.py:MetaWarning.inspect/warn", "codebasin/_detail/logging.py:WarningAggregator.filter/warn",
]
STUBS = ["vp.memfs mounted (existence bits symbolic); module loggers -> recorder that keeps (level, message)",
         "agg/: log records are plain objects with levelno/msg (no logging.LogRecord clocks under the tracer)"]
ASSUMPTIONS = [
    "a missing forced include (-include) counts as an include that resolves to no file",
    "the on-disk cbi.log and verbosity flags are outside the claim",
]
BOUNDS = {
    "quick": "inc/: 3 templates with <= 6 symbolic bits (which copies exist, reached or not, one or two translation units/platforms); "
             "unk/: catalogue of 22 directive names x reached/unreached; agg/: 0..3 records per category",
    "thorough": "same templates, agg/ 0..5 records per category",
}
EXPLANATION = (
    "CrossHair runs the real finder.find / FileParser / load_database on an in-memory tree whose existence bits are symbolic and "
    "compares the multiset of warnings actually logged with the events an independent reference preprocessor reports; the "
    "aggregator is driven with symbolic record counts and its printed totals are compared with them."
)

P = {}
STATS = Counter()
LAST = {}

_WARN = re.compile(r"^(.*):(\d+): (user|system) include '(.*)' not found")


def _parse_include_warnings(rec):
    out = Counter()
    other = []
    for m in rec.warnings():
        mm = _WARN.match(m)
        if mm:
            out[(mm.group(1), int(mm.group(2)), mm.group(4), mm.group(3))] += 1
        else:
            other.append(m)
    return out, other


# ---- templates ---------------------------------------------------------


def t_dangling(b):
    files = {
        "/r/src/main.c": ['#include "m1.h"', "#include <m2.h>", "#ifdef A", '#include "never.h"', "#include <never2.h>", "#endif",
                          '#include "h.h"', '#include "h.h"', "@"],
        "/r/src/h.h": c04.GUARD("H_H", ['#include "m4.h"', "@"]),
        "/r/src/m1.h": ["@"],
        "/r/i/m2.h": ["@"],
        "/r/src/m2.h": ["@"],  # beside the includer: must NOT satisfy the angle form
        "/r/src/other.c": ['#include "h.h"', "#include <m1.h>", "@"],
    }
    fs = scen.build_fs(files, maybe={"/r/src/m1.h": b[0], "/r/i/m2.h": b[1]})
    e1 = scen.entry("/r/src/main.c", ["A"] if b[2] else [], ["/r/i"])
    e2 = scen.entry("/r/src/other.c", [], ["/r/i"])
    conf = {"p": [e1]}
    if b[3]:
        conf["p"].append(e2)
    if b[4]:
        conf["q"] = [scen.entry("/r/src/main.c", [], [])]
    return fs, conf, list(files)


def t_unguarded_twice(b):
    files = {
        "/r/main.c": ['#include "u.h"', '#include "u.h"', "#ifndef X", "#include <sys.h>", "#endif", "@", "#include GONE", "@"],
        "/r/u.h": ['#include "gone.h"', "@", "#ifdef SECOND", "#include <gone2.h>", "#endif", "#define SECOND"],
        "/r/inc/sys.h": ["#define X", "@"],
    }
    fs = scen.build_fs(files, maybe={"/r/inc/sys.h": b[0]})
    # a computed include that resolves to no file: the form (user/system) is the one the expansion has
    gone = 'GONE=<sub/nowhere.h>' if b[1] else 'GONE="sub/nowhere.h"'
    conf = {"p": [scen.entry("/r/main.c", (["X"] if b[1] else []) + [gone], ["/r/inc"] if b[2] else [])]}
    return fs, conf, list(files)


def t_same_spelling_other_dir(b):
    """a miss from one directory must not hide a hit from another, nor the other way round"""
    files = {
        "/r/a/main.c": ['#include "x.h"', '#include "../b/v.h"', "<x.h>".join(["#include ", ""]), "@"],
        "/r/b/v.h": ['#include "x.h"', "@"],
        "/r/a/x.h": ["@"],
        "/r/b/x.h": ["@"],
    }
    fs = scen.build_fs(files, maybe={"/r/a/x.h": b[0], "/r/b/x.h": b[1]})
    conf = {"p": [scen.entry("/r/a/main.c", [], [])]}
    return fs, conf, list(files)


TEMPLATES = {
    "dangling": (t_dangling, 5),
    "unguarded_twice": (t_unguarded_twice, 3),
    "same_spelling_other_dir": (t_same_spelling_other_dir, 2),
}


def _pre_scn(bits):
    for i in range(P["nbits"], 6):
        if bits[i]:
            return False
    for i, v in P.get("fix", []):
        if bits[i] != v:
            return False
    return True


def h_scn(b0: bool, b1: bool, b2: bool, b3: bool, b4: bool, b5: bool) -> bool:
    """
    pre: _pre_scn([b0, b1, b2, b3, b4, b5])
    post: _
    """
    bits = [b0, b1, b2, b3, b4, b5]
    fs, conf, members = TEMPLATES[P["t"]][0](bits)
    members = [m for m in members if fs.isfile(m)]
    try:
        exp, tus = ref_cpp.run_platforms(fs, conf, missing_ok=True)
    except ref_cpp.Diagnostic:
        return True
    expected = Counter()
    for (_p, _e, tu) in tus:
        for ev in tu.missing:
            expected[ev] += 1
    STATS["compared"] += 1
    if P.get("_twin"):
        return False
    try:
        state, rec = scen.run_cbi(fs, conf, members)
    except Exception as e:
        if P.get("_replay"):
            LAST.update(template=P["t"], bits=[bool(x) for x in bits], exception=repr(e))
        return False
    got, other = _parse_include_warnings(rec)
    ok = got == expected and not other
    if ok:
        ok = scen.compare(state, exp, list(conf)) is None
    if P.get("_replay"):
        LAST.update(template=P["t"], bits=[bool(x) for x in bits], warnings=sorted(got.elements()),
                    expected=sorted(expected.elements()), other_warnings=other)
    return ok


# ---- unknown directives ---------------------------------------------------

CATALOGUE = ["pragma", "line", "warning", "error", "define", "undef", "ifdef", "foo", "ident", "assert", "include_next", "import",
             "sccs", "unassert", "elifdef", "warn", "errorx", "lin", "Line", "defin", "region", "33"]
_SILENT = {"pragma", "line", "warning", "error", "define", "undef", "ifdef"}
_OPERAND = {"define": " Z 1", "undef": " Z", "ifdef": " Z", "pragma": " omp parallel", "line": " 7", "include_next": " <q.h>",
            "33": ' "f.c"'}


def _unk_program(i):
    name = CATALOGUE[i]
    line = "#" + name + _OPERAND.get(name, " x")
    tail = ["#endif"] if name == "ifdef" else []
    return ["@", "#ifdef R", line] + tail + ["@", "#endif", line] + tail + ["@"], name


_UNK_FS = {}


def prepare(params):
    if params.get("family") == "unk":
        for i in range(len(CATALOGUE)):
            lines, _ = _unk_program(i)
            _UNK_FS[i] = scen.build_fs({"/r/u.c": lines})


def h_unk(i: int, reached: bool) -> bool:
    """
    pre: P["lo"] <= i < P["hi"]
    post: _
    """
    k = None
    for j in range(len(CATALOGUE)):
        if i == j:
            k = j
    fs = _UNK_FS[k]
    name = CATALOGUE[k]
    lines, _ = _unk_program(k)
    conf = {"p": [scen.entry("/r/u.c", ["R"] if reached else [], [])]}
    STATS["compared"] += 1
    if P.get("_twin"):
        return False
    try:
        state, rec = scen.run_cbi(fs, conf, ["/r/u.c"])
    except Exception as e:
        if P.get("_replay"):
            LAST.update(directive=name, exception=repr(e))
        return False
    warns = rec.warnings()
    # occurrences: line 3 and the one after the conditional; the warning is a parse-time event, one per occurrence
    occ = [n for n, l in enumerate(fs.files["/r/u.c"].split("\n"), start=1) if l.startswith("#" + name)]
    if name in _SILENT:
        ok = len(warns) == 0
    else:
        ok = len(warns) == len(occ)
        for n in occ:
            if not any(w.startswith("/r/u.c:%d:" % n) and "unrecognized directive" in w for w in warns):
                ok = False
    if P.get("_replay"):
        LAST.update(directive=name, reached=bool(reached), warnings=warns, occurrences=occ)
    return ok


# ---- forced include that does not resolve ---------------------------------------


def h_forced(e1: bool, e2: bool, two: bool) -> bool:
    """
    post: _
    """
    files = {"/r/main.c": ["#ifdef F1", "@", "#endif", "@"], "/r/f1.h": ["#define F1"], "/r/f2.h": ["@"]}
    fs = scen.build_fs(files, maybe={"/r/f1.h": e1, "/r/f2.h": e2})
    incs = ["f1.h", "f2.h"] if two else ["f1.h"]
    conf = {"p": [scen.entry("/r/main.c", [], [], incs)]}
    members = [m for m in files if fs.isfile(m)]
    missing = [n for n in incs if not fs.isfile("/r/" + n)]
    STATS["compared"] += 1
    if P.get("_twin"):
        return False
    try:
        state, rec = scen.run_cbi(fs, conf, members)
    except Exception as e:
        if P.get("_replay"):
            LAST.update(exception=repr(e))
        return False
    warns = rec.warnings()
    ok = len(warns) == len(missing)
    for n in missing:
        if not any(n in w for w in warns):
            ok = False
    if P.get("_replay"):
        LAST.update(include_files=incs, missing=missing, warnings=warns)
    return ok


# ---- aggregator -------------------------------------------------------------


class _Rec:
    def __init__(self, levelno, msg):
        self.levelno = levelno
        self.msg = msg


def h_agg(nu: int, ns: int, no: int, ni: int, hostile: bool) -> bool:
    """
    pre: 0 <= nu <= P["n"] and 0 <= ns <= P["n"] and 0 <= no <= P["n"] and 0 <= ni <= 2
    post: _
    """
    import logging

    from codebasin._detail.logging import WarningAggregator

    agg = WarningAggregator()
    hs = bool(hostile)
    # known-finding region C18-category-by-substring: names that contain the words of another category
    if hs and "C18-category-by-substring" in P.get("regions", []):
        return True
    if P.get("witness") == "C18-category-by-substring" and not hs:
        return True
    STATS["compared"] += 1
    if P.get("_twin"):
        return False
    msgs = []
    # with `hostile` the requested header / the file is *named* with the words another category is recognised by
    un, sn, on = ("system include.h", "user include.h", "/r/user include.c") if hs else ("x0.h", "y.h", "/r/a.c")
    for k in range(nu):
        # the same event may be reported several times with an identical text: every record counts
        msgs.append(_Rec(logging.WARNING, "/r/a.c:%d: user include '%s' not found\n    1 | #include \"%s\"" % (1, un, un)))
    for k in range(ns):
        msgs.append(_Rec(logging.WARNING, "/r/a.c:%d: system include '%s' not found\n    1 | #include <%s>" % (k + 1, sn, sn)))
    for k in range(no):
        msgs.append(_Rec(logging.WARNING, "%s:%d:0: unrecognized directive '['#foo']'" % (on, k + 1)))
    for k in range(ni):
        msgs.append(_Rec(logging.INFO, "Compiler 'gcc' recognized."))
        msgs.append(_Rec(logging.ERROR, "user include in an error message must not be counted"))
    for r in msgs:
        if agg.filter(r) is not True:
            return False
    # as in codebasin/__main__.py the totals are logged through the very logger whose handler carries the aggregator as
    # a filter, so every printed total passes through filter() again before the next one is formatted
    class Loop(memfs.Recorder):
        def warning(self, msg, *a, **k):
            agg.filter(_Rec(logging.WARNING, msg))
            memfs.Recorder.warning(self, msg)

    out = Loop()
    agg.warn(out)
    lines = out.warnings()
    tot = {"all": 0, "user": 0, "system": 0}
    for l in lines:
        first = l.split("\n")[0]
        n = int(first.split(" ")[0])
        if "warnings generated" in first:
            tot["all"] += n
        elif "user include files" in first:
            tot["user"] += n
        elif "system include files" in first:
            tot["system"] += n
        else:
            return False
    exp_lines = (1 if nu + ns + no > 0 else 0) + (1 if nu else 0) + (1 if ns else 0)
    ok = tot == {"all": nu + ns + no, "user": nu, "system": ns} and len(lines) == exp_lines
    if P.get("_replay"):
        LAST.update(emitted=dict(user=nu, system=ns, other=no), hostile_names=hs, printed=lines)
    return ok


# ---- database level: missing file, unknown compiler, unknown option ---------------------------

DB_KINDS = ["ok", "missing-file", "unknown-compiler", "unknown-option", "two-unknown-options", "unknown-compiler-and-option", "response-file"]


def h_db(k1: int, k2: int, same: bool) -> bool:
    """
    pre: 0 <= k1 < 7 and 0 <= k2 < 7
    post: _
    """
    import codebasin
    import codebasin.config as config

    ks = []
    for v in (k1, k2):
        for j in range(7):
            if v == j:
                ks.append(j)
    sm = bool(same)
    STATS["compared"] += 1
    if P.get("_twin"):
        return False
    why = None
    with scen.untraced():
        fs = scen.build_fs({"/r/a.c": ["@"], "/r/b.c": ["@"]})
        db = []
        tally = Counter()  # substring that must be named -> number of occurrences
        for i, k in enumerate(ks):
            f = "a.c" if i == 0 else "b.c"
            kind = DB_KINDS[k]
            cc = "gcc"
            flags = ["-DX", "-c"]
            # with `same` both entries name the same compiler / option / missing file: one warning per occurrence is
            # still due (nothing may be remembered from the first entry)
            tag = "S" if sm else str(i)
            if kind == "missing-file":
                f = "gone%s.c" % tag
                tally["gone%s.c" % tag] += 1
            if kind in ("unknown-compiler", "unknown-compiler-and-option"):
                cc = "/opt/bin/weirdcc%s" % tag
                tally["weirdcc%s" % tag] += 1
            if kind in ("unknown-option", "unknown-compiler-and-option"):
                flags = ["-fweird%s" % tag] + flags
                tally["-fweird%s" % tag] += 1
            if kind == "response-file":
                # options hidden in a response file are not honoured: that must be said (and the file not be taken for a source)
                flags = ["@opts%s.rsp" % tag] + flags
                tally["opts%s.rsp" % tag] += 1
            if kind == "two-unknown-options":
                flags = ["-fweird%s" % tag, "--param", "-fother%s" % tag] + flags
                tally["-fweird%s" % tag] += 1
                tally["-fother%s" % tag] += 1
            db.append({"directory": "/r", "file": f, "arguments": [cc] + flags + [f]})
        expect = sorted(tally.items())
        old = codebasin.CompilationDatabase.from_file
        codebasin.CompilationDatabase.from_file = classmethod(lambda cls, path: cls.from_json(db))
        try:
            config._compilers = None  # fresh compiler table: 'Compiler ... not recognized' must not depend on history
            with memfs.mounted(fs) as rec:
                entries = config.load_database("/r/cc.json", "/r")
            warns = rec.warnings()
            for sub, n in expect:
                got = len([w for w in warns if sub in w])
                if got != n:
                    why = "%d warnings name %r, expected %d: %s" % (got, sub, n, warns)
                    break
            if why is None and not expect and [w for w in warns]:
                why = "fully honoured input produced warnings: %s" % warns
            if why is None:
                named = sum(n for _s, n in expect)
                if len(warns) > named + (1 if not entries else 0):
                    why = "more warnings (%d) than unhonoured items (%d): %s" % (len(warns), named, warns)
        except Exception as e:
            why = "exception " + repr(e)
        finally:
            codebasin.CompilationDatabase.from_file = old
    if P.get("_replay"):
        LAST.update(kinds=[DB_KINDS[k] for k in ks], same_names=sm, why=why)
    return why is None


def replay(obd, cex):
    import sys

    mod = sys.modules[__name__]
    if obd["func"] == "h_scn":
        # native re-run + real files on disk, warnings captured from the real 'codebasin' logger
        mod.P = dict(obd["params"], _twin=False, _replay=True)
        mod.LAST = {}
        args, kw = cex
        try:
            ok = h_scn(*args, **kw)
        except Exception as e:
            ok = False
            LAST.update(exception=repr(e))
        detail = dict(LAST)
        if ok is not False:
            return dict(reproduced=False, detail=detail)
        bits = [bool(x) for x in args]
        fs, conf, members = TEMPLATES[obd["params"]["t"]][0](bits)
        exists = {k: bool(v) for k, v in fs.maybe.items()}
        fs.maybe = dict(exists)
        members = [m for m in members if fs.isfile(m)]
        try:
            exp, tus = ref_cpp.run_platforms(fs, conf, missing_ok=True)
            expected = Counter()
            for (_p, _e, tu) in tus:
                for ev in tu.missing:
                    expected[ev] += 1
            got, records, gcc = scen.disk_replay(fs, conf, members, exists)
            diskw = Counter()
            for lvl, m in records:
                mm = _WARN.match(m) if lvl == "WARNING" else None
                if mm:
                    import os

                    diskw[(mm.group(1), int(mm.group(2)), mm.group(4), mm.group(3))] += 1
            detail.update(disk_warnings=sorted(diskw.elements()))
            return dict(reproduced=(diskw != expected), detail=detail)
        except Exception as e:
            detail["disk_exception"] = repr(e)
            return dict(reproduced=True, detail=detail)
    mod.P = dict(obd["params"], _twin=False, _replay=True)
    mod.LAST = {}
    if obd["params"].get("family") == "unk":
        prepare(mod.P)
    args, kw = cex
    try:
        ok = getattr(mod, obd["func"])(*args, **kw)
    except Exception as e:
        ok = False
        LAST.update(exception=repr(e))
    return dict(reproduced=(ok is False), detail=dict(LAST))


def obligations(tier, known):
    obs = []
    for name, (fn, nbits) in TEMPLATES.items():
        splits = [[]]
        if name == "dangling":  # ~4 s per path (three translation units): split over workers by fixing two bits
            splits = [[[3, a], [4, b]] for a in (False, True) for b in (False, True)]
        for fx in splits:
            tag = "".join("-%d%s" % (i, "T" if v else "F") for i, v in fx)
            obs.append(Ob(id="inc/" + name + tag, kind="ch", module=__name__, func="h_scn",
                          params=dict(t=name, nbits=nbits, missing_ok=True, fix=fx), timeout=400, group="inc"))
    step = 4
    for lo in range(0, len(CATALOGUE), step):
        obs.append(Ob(id="unk/%02d" % lo, kind="ch", module=__name__, func="h_unk",
                      params=dict(family="unk", lo=lo, hi=min(len(CATALOGUE), lo + step)), timeout=200, group="unk"))
    if "C18-forced-include-missing" in known:
        obs.append(Ob(id="witness/C18-forced-include-missing", kind="ch", module=__name__, func="h_forced", params={},
                      timeout=120, expect="witness:C18-forced-include-missing", group="witness"))
    else:
        obs.append(Ob(id="forced/missing", kind="ch", module=__name__, func="h_forced", params={}, timeout=120, group="forced"))
    obs.append(Ob(id="db/entries", kind="ch", module=__name__, func="h_db", params={}, timeout=300, group="db"))
    regions = sorted(known)
    obs.append(Ob(id="agg/counts", kind="ch", module=__name__, func="h_agg", params=dict(n=3 if tier == "quick" else 5, regions=regions),
                  timeout=300, group="agg"))
    if "C18-category-by-substring" in regions:
        obs.append(Ob(id="witness/C18-category-by-substring", kind="ch", module=__name__, func="h_agg",
                      params=dict(n=2, regions=[], witness="C18-category-by-substring"), timeout=120,
                      expect="witness:C18-category-by-substring", group="witness"))
    return obs


CLAIM = ("Within the bounds, for every existence pattern the warnings the real code logs are exactly (as a multiset of file, line, "
         "name, form) the unresolvable includes a reference preprocessor reaches; unknown directives and missing forced includes "
         "are reported once each; the aggregator's printed totals equal the numbers of records it saw, for all counts in range.")
LEVEL_NOTE = ("Trusted: CrossHair/z3, vp/memfs.py, vp/refs/ref_cpp.py. Bounded: 3 include templates, a 22-name directive "
              "catalogue, 0..3/5 records per category. Database-level warnings: db/ (2 entries x 7 kinds, same or different names).")
