"""C15 - each physical file is parsed and counted once, however it is reached.

A MemFS holds a few physical files plus aliases of them: a file symlink, a directory symlink, spellings with redundant
`d/../d` segments.  Which alias each compile command, each -I option and each #include uses is symbolic.  The real
finder.find / get_setmap are compared with the same scenario in which every alias is replaced by the canonical path
and the links are removed (the "twin"), and with the reference preprocessor.
"""

from __future__ import annotations

from collections import Counter

from vp import memfs, scen
from vp.driver import Ob
from vp.refs import ref_cpp

PROPERTY = "C15"
LEVEL = "other"
ENGINE = "crosshair+z3"
TECHNIQUE = "CrossHair-enumerated symbolic alias choices over the real finder.find/get_setmap, compared with the alias-free twin scenario"
FUNCTIONS = ["codebasin/finder.py:ParserState._get_realpath/insert_file/get_tree/get_map/get_setmap", "codebasin/finder.py:find",
             "codebasin/platform.py:Platform.find_include_file", "codebasin/preprocessor.py:IncludeNode.evaluate_for_platform"]
STUBS = ["vp.memfs mounted: os.path.realpath/isfile/abspath and Path.is_symlink/resolve answer from the in-memory tree with symlinks"]
ASSUMPTIONS = ["hard links and the real realpath(3) are outside; the in-memory realpath resolves links segment by segment (link text absolute or relative)",
               "aliases of an including file live in the same directory as their target, so that gcc's 'directory of the file as named' "
               "and CBI's 'directory of the resolved file' coincide for quote includes",
               "once the alias indices are decided the real code runs untraced on that leaf"]
BOUNDS = {"quick": "3 physical files (2 sources, 1 header in a sub-directory) + 4 aliases; alias choice for 2 commands (4 spellings each), "
                   "the -I option (3 spellings), the #include (3 spellings), link-in-code-base bit, one -D bit: all combinations",
          "thorough": "same (exhausted)"}
EXPLANATION = ("The alias used at every reference point is a bounded symbolic index; CrossHair exhausts all combinations; on each leaf the real "
               "finder.find runs on the aliased scenario and on its canonical twin: attribution keyed by resolved (file, line), the number "
               "of trees, and get_setmap must coincide, links into the code base must add nothing.")

P = {}
STATS = Counter()
LAST = {}

# dl -> src (directory link), lnk_a.c -> src/a.c, deep -> src/sub (a link to a deeper directory: "deep/../a.c" is
# physically src/a.c although it collapses lexically to /r/a.c, which exists as a different file)
A_SPELL = ["/r/src/a.c", "/r/src/../src/a.c", "/r/lnk_a.c", "/r/dl/a.c", "/r/deep/../a.c"]
B_SPELL = ["/r/src/b.c", "/r/src/./b.c", "/r/dl/b.c", "/r/src/sub/../b.c"]
I_SPELL = ["/r/src/sub", "/r/dl/sub", "/r/src/sub/../sub"]
INC_SPELL = ['#include "sub/h.h"', "#include <h.h>", '#include "sub/../sub/h.h"']


def _build(inc_a, inc_b, rel=False):
    files = {
        "/r/src/a.c": [INC_SPELL[inc_a], "#ifdef H", "@", "#endif", "#ifdef X", "@", "#endif", "@"],
        "/r/src/b.c": [INC_SPELL[inc_b], "@", INC_SPELL[inc_a], "@"],
        # the body behaves differently on a second pass, so processing the #pragma once header twice is visible
        "/r/src/sub/h.h": ["#pragma once", "#ifdef H", "@", "#endif", "#define H", "#ifdef X", "@", "#else", "@", "#endif"],
    }
    files["/r/a.c"] = ["@", "#ifdef DECOY", "@", "#endif"]  # decoy at the lexically collapsed path of /r/deep/../a.c
    links = {"/r/lnk_a.c": "/r/src/a.c", "/r/dl": "/r/src", "/r/deep": "/r/src/sub"}
    if rel:
        # the same links stored with relative link text (what `ln -s src/a.c lnk_a.c` creates)
        links = {"/r/lnk_a.c": "src/a.c", "/r/dl": "src", "/r/deep": "./src/sub"}
    return files, links


def _pre(sa, sb, si, ia, ib):
    return 0 <= sa < 5 and 0 <= sb < 4 and 0 <= si < 3 and 0 <= ia < 3 and 0 <= ib < 3 and sa == P["fix"][0] and si == P["fix"][1]


def h_alias(sa: int, sb: int, si: int, ia: int, ib: int, linkmember: bool, dx: bool, rel: bool) -> bool:
    """
    pre: _pre(sa, sb, si, ia, ib)
    post: _
    """
    idx = []
    for v, n in ((sa, 5), (sb, 4), (si, 3), (ia, 3), (ib, 3)):
        for k in range(n):
            if v == k:
                idx.append(k)
    lm, d, rl = bool(linkmember), bool(dx), bool(rel)
    STATS["compared"] += 1
    if P.get("_twin"):
        return False
    why = None
    with scen.untraced():
        files, links = _build(idx[3], idx[4], rl)
        fs = scen.build_fs(files, links)
        twin = scen.build_fs(_build(0, 0)[0]) if False else scen.build_fs(files)  # same contents, no links
        defs = ["X"] if d else []
        conf = {"p": [scen.entry(A_SPELL[idx[0]], defs, [I_SPELL[idx[2]]])], "q": [scen.entry(B_SPELL[idx[1]], [], [I_SPELL[idx[2]]])]}
        conf_t = {"p": [scen.entry("/r/src/a.c", defs, ["/r/src/sub"])], "q": [scen.entry("/r/src/b.c", [], ["/r/src/sub"])]}
        # what CodeBase.__iter__ yields: rglob lists the file symlink but does not descend into the symlinked directory
        members = sorted(files) + (["/r/lnk_a.c"] if lm else [])
        members_t = sorted(files)
        try:
            exp, _ = ref_cpp.run_platforms(twin, conf_t)
            st, _ = scen.run_cbi(fs, conf, members)
            st_t, _ = scen.run_cbi(twin, conf_t, members_t)
            got, dup = scen.attribution(st)
            got_t, _d = scen.attribution(st_t)
            if dup:
                why = "a line is in two nodes"
            elif set(st.trees) != set(files):
                why = "trees keyed by %s, expected one per physical file %s" % (sorted(st.trees), sorted(files))
            else:
                for p in conf:
                    if got.get(p, set()) != got_t.get(p, set()):
                        why = "platform %s: aliased run differs from the canonical twin: extra %s missing %s" % (
                            p, sorted(got.get(p, set()) - got_t.get(p, set()))[:4], sorted(got_t.get(p, set()) - got.get(p, set()))[:4])
                        break
                    if got_t.get(p, set()) != exp[p]:
                        why = "canonical twin differs from the reference preprocessor for " + p
                        break
            if why is None:
                with memfs.mounted(fs):
                    sm = {k: v for k, v in dict(st.get_setmap(memfs.FakeCodeBase(members))).items() if v}
                with memfs.mounted(twin):
                    sm_t = {k: v for k, v in dict(st_t.get_setmap(memfs.FakeCodeBase(members_t))).items() if v}
                if sm != sm_t:
                    why = "get_setmap with links %s != twin %s" % ({tuple(sorted(k)): v for k, v in sm.items()},
                                                                    {tuple(sorted(k)): v for k, v in sm_t.items()})
        except Exception as e:
            why = "exception " + repr(e)
    if P.get("_replay"):
        LAST.update(command_a=A_SPELL[idx[0]], command_b=B_SPELL[idx[1]], include_path=I_SPELL[idx[2]], include_a=INC_SPELL[idx[3]],
                    include_b=INC_SPELL[idx[4]], links_are_members=lm, X=d, relative_link_text=rl, why=why)
    return why is None


def replay(obd, cex):
    """native re-run + real symlinks on disk through the unpatched finder.find"""
    import os
    import shutil
    import sys
    import tempfile

    mod = sys.modules[__name__]
    mod.P = dict(obd["params"], _twin=False, _replay=True)
    mod.LAST = {}
    args, kw = cex
    if obd["func"] == "h_real":
        # already the real CodeBase and finder on a real tree: a native re-run is the replay
        try:
            ok = h_real(*args, **kw)
        except Exception as e:
            ok = False
            LAST.update(exception=repr(e))
        return dict(reproduced=(ok is False), detail=dict(LAST))
    try:
        ok = h_alias(*args, **kw)
    except Exception as e:
        ok = False
        LAST.update(exception=repr(e))
    detail = dict(LAST)
    if ok is not False:
        return dict(reproduced=False, detail=detail)
    try:
        import codebasin.finder as finder

        sa, sb, si, ia, ib, lm, d, rl = args
        files, links = _build(ia, ib, rl)
        fs = scen.build_fs(files, links)
        scratch = tempfile.mkdtemp(prefix="vp_c15_")
        try:
            fs.materialise(scratch)
            defs = ["X"] if d else []
            conf = {"p": [dict(file=scratch + A_SPELL[sa], defines=defs, include_paths=[scratch + I_SPELL[si]], include_files=[])],
                    "q": [dict(file=scratch + B_SPELL[sb], defines=[], include_paths=[scratch + I_SPELL[si]], include_files=[])]}
            conf_t = {"p": [dict(file=scratch + "/r/src/a.c", defines=defs, include_paths=[scratch + "/r/src/sub"], include_files=[])],
                      "q": [dict(file=scratch + "/r/src/b.c", defines=[], include_paths=[scratch + "/r/src/sub"], include_files=[])]}
            members = [scratch + m for m in sorted(files)]
            st = finder.find(scratch + "/r", memfs.FakeCodeBase(members), conf)
            st_t = finder.find(scratch + "/r", memfs.FakeCodeBase(members), conf_t)
            g, _ = scen.attribution(st)
            gt, _ = scen.attribution(st_t)
            detail["disk_differs"] = g != gt or set(st.trees) != set(st_t.trees)
            # the canonical spelling on disk against the reference preprocessor (a change that breaks link-free aliases
            # such as "sub/../sub/h.h" breaks the twin as well: spelled and canonical run then agree with each other)
            exp, _ = ref_cpp.run_platforms(scen.build_fs(files), {pl: [scen.entry(e["file"][len(scratch):], e["defines"],
                                                                  [i[len(scratch):] for i in e["include_paths"]]) for e in es]
                                                                  for pl, es in conf_t.items()})
            root = os.path.realpath(scratch)
            disk_t = {pl: {(fn[len(root):], ln) for fn, ln in v} for pl, v in gt.items()}
            detail["disk_twin_differs_from_reference"] = any(disk_t.get(pl, set()) != exp[pl] for pl in conf_t)
            return dict(reproduced=bool(detail["disk_differs"]) or bool(detail["disk_twin_differs_from_reference"])
                        or "get_setmap" in str(detail.get("why")), detail=detail)
        finally:
            shutil.rmtree(scratch, ignore_errors=True)
    except Exception as e:
        detail["disk_exception"] = repr(e)
        return dict(reproduced=True, detail=detail)


# ---- the real CodeBase on a real scratch tree: links whose target is outside are no members, links to members add nothing ----

LINK_KINDS = ["file-in", "file-out", "dir-in", "dir-out", "file-out-in-subdir", "chain-out"]


def h_real(k1: int, k2: int, rel: bool, compiled: bool) -> bool:
    """
    pre: 0 <= k1 < 6 and 0 <= k2 < 6
    post: _
    """
    import os
    import shutil
    import tempfile

    ks = []
    for v in (k1, k2):
        for j in range(6):
            if v == j:
                ks.append(j)
    rl, cp = bool(rel), bool(compiled)
    STATS["compared"] += 1
    if P.get("_twin"):
        return False
    why = None
    with scen.untraced():
        import codebasin
        import codebasin.finder as finder

        top = os.path.realpath(tempfile.mkdtemp(prefix="vp_c15r_"))
        try:
            def build(with_links):
                base = os.path.join(top, "L" if with_links else "T")
                root, out = os.path.join(base, "root"), os.path.join(base, "outside")
                os.makedirs(os.path.join(root, "src"))
                os.makedirs(os.path.join(out, "ext"))
                for rp, text in (("root/src/a.c", "int a;\n#ifdef X\nint x;\n#endif\n"), ("root/src/b.c", "int b;\nint b2;\n"),
                                 ("outside/v.c", "int v;\nint v2;\nint v3;\n"), ("outside/ext/w.c", "int w;\n")):
                    with open(os.path.join(base, rp), "w") as f:
                        f.write(text)
                if with_links:
                    def link(target, name):
                        lp = os.path.join(root, name)
                        os.symlink(os.path.relpath(target, os.path.dirname(lp)) if rl else target, lp)

                    for n, k in enumerate(ks):
                        kind = LINK_KINDS[k]
                        if kind == "file-in":
                            link(os.path.join(root, "src/a.c"), "l%d.c" % n)
                        elif kind == "file-out":
                            link(os.path.join(out, "v.c"), "l%d.c" % n)
                        elif kind == "dir-in":
                            link(os.path.join(root, "src"), "d%d" % n)
                        elif kind == "dir-out":
                            link(os.path.join(out, "ext"), "d%d" % n)
                        elif kind == "file-out-in-subdir":
                            link(os.path.join(out, "v.c"), "src/l%d.c" % n)
                        elif kind == "chain-out":
                            # a link to a link whose final target is outside
                            os.symlink(os.path.join(out, "v.c"), os.path.join(root, "hop%d.c" % n))
                            link(os.path.join(root, "hop%d.c" % n), "l%d.c" % n)
                return root

            def run(root):
                cwd = os.getcwd()
                os.chdir(top)  # (relative link texts must not be read against the working directory)
                try:
                    cb = codebasin.CodeBase(root)
                    conf = {"p": [dict(file=os.path.join(root, "src/a.c"), defines=["X"], include_paths=[], include_files=[])]}
                    if cp:
                        conf["q"] = [dict(file=os.path.join(root, "src/b.c"), defines=[], include_paths=[], include_files=[])]
                    st = finder.find(root, cb, conf)
                    sm = {tuple(sorted(k)): v for k, v in dict(st.get_setmap(cb)).items() if v}
                    members = sorted(os.path.relpath(m, root) for m in cb)
                    return sm, members, len(st.get_filenames())
                finally:
                    os.chdir(cwd)

            sm_l, mem_l, n_l = run(build(True))
            sm_t, mem_t, n_t = run(build(False))
            outside = [m for m in mem_l if os.path.realpath(os.path.join(top, "L/root", m)).startswith(os.path.join(top, "L/outside"))]
            if outside:
                why = "links whose target is outside the code base are members: %s" % outside
            elif sm_l != sm_t:
                why = "totals with links %s != without %s" % (sm_l, sm_t)
            elif n_l != n_t:
                why = "%d files parsed with links, %d without" % (n_l, n_t)
        except Exception as e:
            why = "exception " + repr(e)
        finally:
            shutil.rmtree(top, ignore_errors=True)
    if P.get("_replay"):
        LAST.update(links=[LINK_KINDS[k] for k in ks], relative_link_text=rl, second_platform=cp, why=why)
    return why is None


def obligations(tier, known):
    obs = [Ob(id="alias/cmd%d-inc%d" % (a, i), kind="ch", module=__name__, func="h_alias", params=dict(fix=[a, i]), timeout=900,
              group="alias") for a in range(5) for i in range(3)]
    obs.append(Ob(id="real/links", kind="ch", module=__name__, func="h_real", params={}, timeout=600, group="real"))
    return obs


CLAIM = ("For every combination of path spellings (canonical, with redundant segments, through a file symlink, through a directory symlink) at "
         "the compile commands, the -I option and the #include directives, the analysis lands on the same lines of the same physical files "
         "as the canonical twin, builds one tree per physical file, and counts links into the code base zero times - exhausted by CrossHair.")
LEVEL_NOTE = ("Trusted: CrossHair/z3 for the enumeration, the in-memory realpath model in vp/memfs.py (replays use real symlinks), "
              "vp/refs/ref_cpp.py. Bounded: 3 physical files, 4 aliases; real/: the real CodeBase and finder on a scratch tree "
              "with two links out of 6 kinds (file/directory, target inside/outside, in a sub-directory, chained), link text relative or absolute.")
