"""C04 - #include resolution and attribution across files follow compiler rules.

Layer A (resolve/): Platform.find_include_file as a function of a symbolic file system: existence bit per candidate
copy, symbolic -I order, a sequence of look-ups with symbolic (name, including directory, quote|angle); every answer
must equal the compiler rule *independently of the earlier look-ups*.
Layer B (scn/): multi-file scenarios on a MemFS through the real finder.find; oracle vp.refs.ref_cpp.
"""

from __future__ import annotations

from collections import Counter

from vp import memfs, scen
from vp.driver import Ob
from vp.refs import ref_cpp

PROPERTY = "C04"
LEVEL = "other"
ENGINE = "crosshair+z3"
TECHNIQUE = "CrossHair symbolic execution of the real include resolver / finder.find over a file system with symbolic existence bits"
FUNCTIONS = [
    "codebasin/platform.py:Platform.find_include_file/add_include_path/add_include_to_skip/process_include",
    "codebasin/preprocessor.py:IncludeNode.evaluate_for_platform", "codebasin/preprocessor.py:DirectiveParser.include/include_path",
    "codebasin/preprocessor.py:PragmaNode.evaluate_for_platform", "codebasin/finder.py:find (forced includes)",
    "codebasin/finder.py:ParserState.insert_file/associate", "codebasin/preprocessor.py:MacroExpander.expand (computed include)",
]
STUBS = ["vp.memfs mounted: os.path.isfile/abspath/realpath/exists answer from an in-memory tree whose existence bits are symbolic; "
         "file_parser.open; finder.tqdm identity; module loggers -> recorder"]
ASSUMPTIONS = [
    "scenarios in which gcc would stop (a header resolves nowhere) or warn are outside C04 (missing headers are C18's subject)",
    "-isystem directories are searched after all -I directories (isystem/order checks the list parse_args produces together "
    "with the resolver); -iquote, -idirafter and #include_next are outside",
    "forced includes are named so that gcc's rule (compiler working directory first) and CBI's (main file's directory first) "
    "pick the same file",
]
BOUNDS = {
    "quick": "resolve/: 2 names x 4 directories (8 existence bits), 5 -I orders, 2 look-ups; scn/: 13 scenario templates, each "
             "with <= 6 symbolic bits (copies that exist, -I order, -D, quote/angle)",
    "thorough": "resolve/: 3 look-ups; scn/: the same templates with all bits free",
}
EXPLANATION = (
    "CrossHair explores the real resolver and the real finder.find on an in-memory tree in which the existence of every candidate "
    "copy of a header, the order of the -I list, the form of the directive and the -D options are symbolic; each obligation is "
    "confirmed over all paths against the compiler's search rule / the reference preprocessor."
)

P = {}
STATS = Counter()
LAST = {}

DIRS = ["/r/a", "/r/b", "/r/i1", "/r/i2"]
NAMES = ["x.h", "y.h"]
ORDERS = [["/r/i1", "/r/i2"], ["/r/i2", "/r/i1"], ["/r/i1"], ["/r/i2", "/r/a"], []]


def prepare(params):
    import codebasin.config as config

    config._load_compilers()  # warm the process-wide compiler table natively: every path must see the same state


def _ref_resolve(exists, order, name, includer, system):
    dirs = ([] if system else [includer]) + order
    for d in dirs:
        if exists[(d, name)]:
            return d + "/" + name
    return None


def _pre_res(o, n1, d1, s1, n2, d2, n3, d3):
    if not (0 <= o < 5 and 0 <= n1 < 2 and 0 <= d1 < 2 and 0 <= n2 < 2 and 0 <= d2 < 2 and 0 <= n3 < 2 and 0 <= d3 < 2):
        return False
    # the obligation fixes the -I order and the first look-up (split over workers); the rest is symbolic
    fo, fn, fd, fsys = P["fix"]
    return o == fo and n1 == fn and d1 == fd and s1 == fsys


def h_resolve(e0: bool, e1: bool, e2: bool, e3: bool, e4: bool, e5: bool, e6: bool, e7: bool, o: int,
              n1: int, d1: int, s1: bool, n2: int, d2: int, s2: bool, n3: int, d3: int, s3: bool) -> bool:
    """
    pre: _pre_res(o, n1, d1, s1, n2, d2, n3, d3)
    post: _
    """
    from codebasin.platform import Platform

    bits = [e0, e1, e2, e3, e4, e5, e6, e7]
    exists = {}
    fs = memfs.MemFS("/r")
    k = 0
    for d in DIRS:
        for n in NAMES:
            exists[(d, n)] = bits[k]
            fs.add(d + "/" + n, ["@"], exists=bits[k])
            k += 1
    order = None
    for i in range(5):
        if o == i:
            order = ORDERS[i]
    looks = [(n1, d1, s1), (n2, d2, s2), (n3, d3, s3)][: P["lookups"]]
    STATS["compared"] += 1
    if P.get("_twin"):
        return False
    with memfs.mounted(fs):
        plat = Platform("p", "/r")
        for d in order:
            plat.add_include_path(d)
        trace = []
        for (n, d, s) in looks:
            name = NAMES[1] if n == 1 else NAMES[0]
            inc = DIRS[1] if d == 1 else DIRS[0]
            try:
                got = plat.find_include_file(name, inc, s)
            except Exception as e:
                got = "exception " + repr(e)
            exp = _ref_resolve(exists, order, name, inc, s)
            trace.append((name, inc, bool(s), got, exp))
            if got != exp:
                if P.get("_replay"):
                    LAST.update(order=order, exists={"%s/%s" % k: bool(v) for k, v in exists.items()}, lookups=trace)
                return False
    return True


def h_isystem(first_sys: bool, e_i: bool, e_s: bool, quote: bool, e_local: bool, both: bool) -> bool:
    """
    post: _
    """
    # the search order a compiler uses: [includer's directory for the quote form], all -I in order, then all -isystem
    import codebasin.config as config
    from codebasin.platform import Platform

    fs = memfs.MemFS("/r")
    fs.add("/r/i1/x.h", ["@"], exists=e_i)
    fs.add("/r/s1/x.h", ["@"], exists=e_s)
    fs.add("/r/src/x.h", ["@"], exists=e_local)
    argv = ["-isystem", "/r/s1", "-I", "/r/i1"] if first_sys else ["-I", "/r/i1", "-isystem", "/r/s1"]
    if both:
        # the system directory is ALSO named with -I, in front of everything: a compiler ignores that -I and still
        # searches the directory at its place among the system directories
        argv = ["-I/r/s1"] + argv
    STATS["compared"] += 1
    if P.get("_twin"):
        return False
    rec = memfs.Recorder()
    old = config.log
    config.log = rec
    try:
        cfg = config.ArgumentParser("gcc").parse_args(argv + ["-c", "m.c"])[0]
    finally:
        config.log = old
    with memfs.mounted(fs):
        plat = Platform("p", "/r")
        for d in cfg.include_paths:
            plat.add_include_path(d)
        got = plat.find_include_file("x.h", "/r/src", not quote)
    exp = None
    for d, e in ((["/r/src"] if quote else []) and [("/r/src", e_local)] or []) + [("/r/i1", e_i), ("/r/s1", e_s)]:
        if e:
            exp = d + "/x.h"
            break
    if P.get("_replay"):
        LAST.update(argv=argv, include_paths=list(cfg.include_paths), quote=bool(quote),
                    exists={"/r/src/x.h": bool(e_local), "/r/i1/x.h": bool(e_i), "/r/s1/x.h": bool(e_s)}, got=got, expected=exp)
    return got == exp


# --------------------------------------------------------------------------
# layer B scenario templates.  Each takes a list of bools and returns (fs, configuration, members)

GUARD = lambda g, body: ["#ifndef " + g, "#define " + g] + body + ["#endif"]


def t_same_name(b):
    """same header name beside the includer and in two -I directories; quote and angle forms"""
    files = {
        "/r/src/main.c": ['#include "x.h"' if b[3] else "#include <x.h>", "#ifdef X_SRC", "@", "#endif", "#ifdef X_I1", "@",
                          "#endif", "#ifdef X_I2", "@", "#endif", "@"],
        "/r/src/x.h": ["#define X_SRC", "@"],
        "/r/i1/x.h": ["#define X_I1", "@"],
        "/r/i2/x.h": ["#define X_I2", "@"],
    }
    fs = scen.build_fs(files, maybe={"/r/src/x.h": b[0], "/r/i1/x.h": b[1], "/r/i2/x.h": b[2]})
    order = ["/r/i1", "/r/i2"] if b[4] else ["/r/i2", "/r/i1"]
    conf = {"p": [scen.entry("/r/src/main.c", [], order)]}
    return fs, conf, list(files)


def t_two_dirs(b):
    """the same spelling included from two directories and in both forms within one translation unit"""
    files = {
        "/r/a/main.c": ['#include "../b/v.h"' if b[0] else '#include "x.h"', '#include "x.h"' if b[0] else '#include "../b/v.h"',
                        "#ifdef X_A", "@", "#endif", "#ifdef X_B", "@", "#endif", "#ifdef X_I", "@", "#endif"],
        "/r/b/v.h": ["#include <x.h>" if b[1] else '#include "x.h"', "@"],
        "/r/a/x.h": ["#define X_A", "@"],
        "/r/b/x.h": ["#define X_B", "@"],
        "/r/i/x.h": ["#define X_I", "@"],
    }
    fs = scen.build_fs(files, maybe={"/r/a/x.h": b[2], "/r/b/x.h": b[3]})
    conf = {"p": [scen.entry("/r/a/main.c", [], ["/r/i"] if b[4] else ["/r/i", "/r/b"])]}
    return fs, conf, list(files)


def t_macro_state(b):
    """the header is processed under the macro state at the point of inclusion and its definitions stay visible"""
    files = {
        "/r/main.c": (["#define M 1"] if b[0] else ["@"]) + ['#include "h.h"', "#ifdef FROM_H", "@", "#else", "@", "#endif",
                                                             "#ifdef M", "@", "#endif", "#if K == 2", "@", "#endif"],
        "/r/h.h": ["#ifdef M", "#define FROM_H", "@", "#endif"] + (["#undef M"] if b[1] else ["@"]) + ["#ifdef D", "#define K 2",
                                                                                                        "#else", "#define K 3", "#endif"],
    }
    fs = scen.build_fs(files)
    conf = {"p": [scen.entry("/r/main.c", ["D"] if b[2] else [], [])]}
    return fs, conf, list(files)


def t_guards(b):
    """guarded, #pragma once and unguarded headers included twice"""
    inc = lambda n: '#include "%s"' % n
    files = {
        "/r/main.c": [inc("g.h"), inc("o.h"), inc("u.h"), "#define SECOND", inc("g.h") if b[0] else "@", inc("o.h") if b[1] else "@",
                      inc("u.h") if b[2] else "@", "#if N == 1", "@", "#endif"],
        "/r/g.h": GUARD("G_H", ["#ifdef SECOND", "@", "#else", "@", "#endif"]),
        "/r/o.h": ["#pragma once", "#ifdef SECOND", "@", "#else", "@", "#endif"],
        "/r/u.h": ["#ifdef SECOND", "@", "#define N 1", "#else", "@", "#endif"],
    }
    fs = scen.build_fs(files)
    conf = {"p": [scen.entry("/r/main.c", [], [])]}
    if b[3]:  # a second translation unit of the same platform starts from a fresh include-once state
        conf["p"].append(scen.entry("/r/main.c", ["SECOND"], []))
    return fs, conf, list(files)


def t_nested(b):
    """nested includes: a quote include is searched relative to the directory of the file that contains it"""
    files = {
        "/r/main.c": ['#include "inc/a.h"', "#ifdef C_SUB", "@", "#endif", "#ifdef C_TOP", "@", "#endif", "#ifdef C_INC", "@", "#endif"],
        "/r/inc/a.h": ['#include "sub/b.h"', "@"],
        "/r/inc/sub/b.h": ['#include "c.h"' if b[0] else "#include <c.h>", "@"],
        "/r/inc/sub/c.h": ["#define C_SUB", "@"],
        "/r/c.h": ["#define C_TOP", "@"],
        "/r/inc/c.h": ["#define C_INC", "@"],
    }
    fs = scen.build_fs(files, maybe={"/r/inc/sub/c.h": b[1], "/r/inc/c.h": b[2]})
    paths = (["/r/inc"] if b[3] else []) + ["/r"]
    conf = {"p": [scen.entry("/r/main.c", [], paths)]}
    return fs, conf, list(files)


def t_forced(b):
    """-include headers are processed before the main file, in order, under the command's macro state"""
    files = {
        "/r/main.c": ["#ifdef F1", "@", "#endif", "#if ORDER == 2", "@", "#elif ORDER == 1", "@", "#else", "@", "#endif", "@"],
        "/r/f1.h": ["#define F1", "#ifndef ORDER", "#define ORDER 1", "#endif", "#ifdef D", "@", "#endif"],
        "/r/f2.h": ["#ifndef ORDER", "#define ORDER 2", "#endif", "@"],
    }
    fs = scen.build_fs(files)
    incs = []
    if b[0]:
        incs = ["f1.h", "f2.h"] if b[1] else ["f2.h", "f1.h"]
    elif b[1]:
        incs = ["f1.h"]
    conf = {"p": [scen.entry("/r/main.c", ["D"] if b[2] else [], [], incs)]}
    return fs, conf, list(files)


def t_computed(b):
    """computed include: the operand is macro-expanded and then has one of the two forms"""
    hdr = 'HDR="sub/x.h"' if b[0] else "HDR=<sub/x.h>"
    files = {
        "/r/src/main.c": ["#include HDR", "#ifdef X_SRC", "@", "#endif", "#ifdef X_I", "@", "#endif"],
        "/r/src/sub/x.h": ["#define X_SRC", "@"],
        "/r/i/sub/x.h": ["#define X_I", "@"],
    }
    fs = scen.build_fs(files, maybe={"/r/src/sub/x.h": b[1]})
    conf = {"p": [scen.entry("/r/src/main.c", [hdr], ["/r/i"])]}
    return fs, conf, list(files)


def t_conditional_include(b):
    """include directives inside conditionals, headers that include each other under guards"""
    files = {
        "/r/main.c": ["#ifdef A", '#include "a.h"', "#else", '#include "b.h"', "#endif", "#ifdef IN_A", "@", "#endif", "#ifdef IN_B", "@",
                      "#endif"],
        "/r/a.h": GUARD("A_H", ['#include "b.h"', "#define IN_A", "@"]),
        "/r/b.h": GUARD("B_H", (['#include "a.h"'] if b[1] else ["@"]) + ["#define IN_B", "@"]),
    }
    fs = scen.build_fs(files)
    conf = {"p": [scen.entry("/r/main.c", ["A"] if b[0] else [], [])]}
    return fs, conf, list(files)


def t_pragma_variants(b):
    """#pragma once that is not the first line, sits in a header included from another header, or in an untaken branch"""
    inc = lambda n: '#include "%s"' % n
    files = {
        "/r/main.c": [inc("outer.h"), inc("inner/in.h"), inc("outer.h"), inc("cond.h"), inc("cond.h"), "#if COUNT == 2", "@", "#endif",
                      "#ifdef IN_TWICE", "@", "#endif"],
        "/r/outer.h": ["@", "#pragma once", inc("inner/in.h"), "@"],
        "/r/inner/in.h": ["#pragma once" if b[0] else "@", "#ifdef IN_ONCE", "#define IN_TWICE", "#endif", "#define IN_ONCE", "@"],
        # the pragma is in a branch that is not taken unless ONCE is defined: otherwise the header is processed twice
        "/r/cond.h": ["#ifdef ONCE", "#pragma once", "#endif", "#ifdef COUNT1", "#define COUNT 2", "#else", "#define COUNT1", "#endif", "@"],
    }
    fs = scen.build_fs(files)
    conf = {"p": [scen.entry("/r/main.c", ["ONCE"] if b[1] else [], [])]}
    return fs, conf, list(files)


def t_c_includes_c(b):
    """a .c file that is a compile command's main file is also included by another translation unit; sub-directory
    components in the include name are resolved against each search directory"""
    files = {
        "/r/src/impl.c": ["#ifdef AS_INCLUDE", "@", "#else", "@", "#endif", '#include "detail/d.h"'],
        "/r/src/unity.c": ["#define AS_INCLUDE", '#include "impl.c"', "#include <detail/d.h>" if b[0] else '#include "detail/d.h"', "@"],
        "/r/src/detail/d.h": ["#ifndef D_H", "#define D_H", "#ifdef AS_INCLUDE", "@", "#endif", "@", "#endif"],
        "/r/inc/detail/d.h": ["#define FROM_INC", "@"],
    }
    fs = scen.build_fs(files, maybe={"/r/src/detail/d.h": b[1]})
    paths = ["/r/inc", "/r/src"] if b[2] else ["/r/src", "/r/inc"]
    conf = {"p": [scen.entry("/r/src/impl.c", [], paths), scen.entry("/r/src/unity.c", [], paths)]}
    return fs, conf, list(files)


def t_dotdot(b):
    """a name with '..' is walked by the file system: through a missing directory it leads nowhere, and the search goes on"""
    files = {
        "/r/src/main.c": ['#include "nodir/../x.h"' if b[0] else "#include <nodir/../x.h>", "#ifdef X_SRC", "@", "#endif", "#ifdef X_INC", "@", "#endif",
                          '#include "sub/../y.h"', "#ifdef Y", "@", "#endif"],
        "/r/src/x.h": ["#define X_SRC", "@"],
        "/r/src/y.h": ["#define Y", "@"],
        "/r/src/sub/z.h": ["@"],
        "/r/inc/x.h": ["#define X_INC", "@"],
        "/r/inc/nodir/keep.h": ["@"],
        "/r/inc2/x.h": ["#define X_INC", "#define X_SRC", "@"],
    }
    fs = scen.build_fs(files, maybe={"/r/inc/x.h": b[1]})
    conf = {"p": [scen.entry("/r/src/main.c", [], ["/r/src", "/r/inc", "/r/inc2"] if b[2] else ["/r/inc", "/r/inc2"])]}
    return fs, conf, list(files)


def t_absolute(b):
    """an absolute header name is opened directly, in the quote and in the angle form, with or without -I directories"""
    files = {
        "/r/src/main.c": ["#include </r/abs/a.h>" if b[0] else '#include "/r/abs/a.h"', "#ifdef A", "@", "#else", "@", "#endif",
                          "#define H </r/abs/b.h>", "#include H", "#ifdef B", "@", "#endif"],
        "/r/abs/a.h": ["#define A", "@", '#include "b.h"'],
        "/r/abs/b.h": ["#pragma once", "#define B", "@"],
    }
    fs = scen.build_fs(files)
    conf = {"p": [scen.entry("/r/src/main.c", [], ["/r/inc"] if b[1] else [])]}
    return fs, conf, list(files)


def t_forced_once(b):
    """a #pragma once header named by -include is processed once per translation unit, however often it is forced"""
    files = {
        "/r/main.c": ["#if N == 1", "@", "#elif N == 2", "@", "#else", "@", "#endif", '#include "once.h"', "#if N == 3", "@", "#endif"],
        "/r/once.h": ["#pragma once", "#ifndef N", "#define N 1", "#elif N == 1", "#undef N", "#define N 2", "#else", "#undef N", "#define N 3", "#endif", "@"],
        "/r/wrap.h": ['#include "once.h"', "@"],
    }
    fs = scen.build_fs(files)
    incs = [["once.h", "once.h"], ["wrap.h", "once.h"], ["once.h", "wrap.h", "once.h"], ["once.h"]][(1 if b[0] else 0) + (2 if b[1] else 0)]
    conf = {"p": [scen.entry("/r/main.c", [], [], incs)]}
    return fs, conf, list(files)


TEMPLATES = {
    "dotdot": (t_dotdot, 3),
    "absolute": (t_absolute, 2),
    "forced_once": (t_forced_once, 2),
    "pragma_variants": (t_pragma_variants, 2),
    "c_includes_c": (t_c_includes_c, 3),
    "same_name": (t_same_name, 5),
    "two_dirs": (t_two_dirs, 5),
    "macro_state": (t_macro_state, 3),
    "guards": (t_guards, 4),
    "nested": (t_nested, 4),
    "forced": (t_forced, 3),
    "computed": (t_computed, 2),
    "conditional_include": (t_conditional_include, 2),
}


def _pre_scn(bits):
    n = P["nbits"]
    for i in range(n, 6):
        if bits[i]:
            return False
    return True


def h_scn(b0: bool, b1: bool, b2: bool, b3: bool, b4: bool, b5: bool) -> bool:
    """
    pre: _pre_scn([b0, b1, b2, b3, b4, b5])
    post: _
    """
    bits = [b0, b1, b2, b3, b4, b5]
    fn, _n = TEMPLATES[P["t"]]
    fs, conf, members = fn(bits)
    members = [m for m in members if fs.isfile(m)]  # the code base only enumerates files that exist
    try:
        exp, _tus = ref_cpp.run_platforms(fs, conf)
    except ref_cpp.Diagnostic:
        return True
    STATS["compared"] += 1
    if P.get("_twin"):
        return False
    try:
        state, rec = scen.run_cbi(fs, conf, members)
    except Exception as e:
        if P.get("_replay"):
            LAST.update(template=P["t"], bits=[bool(x) for x in bits], exception=repr(e))
        return False
    diff = scen.compare(state, exp, list(conf))
    if P.get("_replay"):
        LAST.update(template=P["t"], bits=[bool(x) for x in bits], diff=diff,
                    exists={k: bool(v) for k, v in fs.maybe.items()})
    return diff is None


def replay_scn(mod, obd, cex, templates):
    """shared by the scenario harnesses: native re-run, then real files on disk + gcc -E"""
    mod.P = dict(obd["params"], _twin=False, _replay=True)
    mod.LAST = {}
    args, kw = cex
    try:
        ok = getattr(mod, obd["func"])(*args, **kw)
    except Exception as e:
        ok = False
        mod.LAST.update(exception=repr(e))
    detail = dict(mod.LAST)
    if ok is not False:
        return dict(reproduced=False, detail=detail)
    if obd["func"] != "h_scn":
        return dict(reproduced=True, detail=detail)
    bits = [bool(x) for x in args]
    fs, conf, members = templates[obd["params"]["t"]][0](bits)
    exists = {k: bool(v) for k, v in fs.maybe.items()}
    fs.maybe = dict(exists)
    members = [m for m in members if fs.isfile(m)]
    try:
        exp, _ = ref_cpp.run_platforms(fs, conf, missing_ok=obd["params"].get("missing_ok", False))
        got, warnings, gcc = scen.disk_replay(fs, conf, members, exists)
        bad = False
        for p in conf:
            if got.get(p, set()) != exp[p]:
                bad = True
                detail.setdefault("disk_diff", {})[p] = dict(extra=sorted(got.get(p, set()) - exp[p])[:5],
                                                             missing=sorted(exp[p] - got.get(p, set()))[:5])
            g = gcc.get(p)
            if isinstance(g, set):
                agrees = g == scen.code_tokens(fs, exp[p])
                detail.setdefault("gcc_agrees_with_reference", {})[p] = agrees
                if not agrees:
                    return dict(reproduced=False, detail=dict(detail, note="gcc -E disagrees with ref_cpp: harness error",
                                                              gcc=sorted(g)[:10]))
            else:
                detail.setdefault("gcc", {})[p] = g
        return dict(reproduced=bad, detail=detail)
    except Exception as e:
        detail["disk_exception"] = repr(e)
        return dict(reproduced=True, detail=detail)


def replay(obd, cex):
    import sys

    return replay_scn(sys.modules[__name__], obd, cex, TEMPLATES)


def obligations(tier, known):
    obs = []
    for o in range(5):
        for n in range(2):
            for d in range(2):
                for sy in (False, True):
                    obs.append(Ob(id="resolve/2/o%d-n%d-d%d-%s" % (o, n, d, "angle" if sy else "quote"), kind="ch",
                                  module=__name__, func="h_resolve", params=dict(lookups=2, fix=[o, n, d, sy]), timeout=200,
                                  group="resolve"))
                    if tier == "thorough":
                        obs.append(Ob(id="resolve/3/o%d-n%d-d%d-%s" % (o, n, d, "angle" if sy else "quote"), kind="ch",
                                      module=__name__, func="h_resolve", params=dict(lookups=3, fix=[o, n, d, sy]),
                                      timeout=1500, group="resolve"))
    expect = "witness:C04-isystem-order" if "C04-isystem-order" in known else "hold"
    obs.append(Ob(id="isystem/order", kind="ch", module=__name__, func="h_isystem", params={}, timeout=200, group="resolve",
                  expect=expect))
    for name, (fn, nbits) in TEMPLATES.items():
        obs.append(Ob(id="scn/" + name, kind="ch", module=__name__, func="h_scn", params=dict(t=name, nbits=nbits), timeout=400,
                      group="scn"))
    return obs


CLAIM = ("Within the bounds, for every existence pattern, -I order, directive form and -D choice the real resolver returns what the "
         "compiler rule prescribes regardless of earlier look-ups, and per-line attribution of every file equals the reference "
         "preprocessor's (include-once, guards, forced and computed includes, macro state at the point of inclusion).")
LEVEL_NOTE = ("Trusted: CrossHair/z3, vp/memfs.py, vp/refs/ref_cpp.py (confirmed against gcc -E on replay). Bounded: 13 scenario "
              "templates, <= 4 directories, depth <= 3; -iquote/-idirafter/#include_next are outside.")
