"""C07 - coverage / average_coverage / distance / divergence equal their
definitions, for all line counts (engine E2, see vp/symreal.py)."""

from __future__ import annotations

import itertools as it
import math
import time
from fractions import Fraction

import z3

from vp import symreal as sr
from vp.driver import Ob

PROPERTY = "C07"
LEVEL = "other"
FUNCTIONS = [
    "codebasin/report.py:coverage",
    "codebasin/report.py:average_coverage",
    "codebasin/report.py:distance",
    "codebasin/report.py:divergence",
    "codebasin/report.py:extract_platforms",
    "codebasin/report.py:clustering (matrix/: printed distance matrix and linkage input, concrete counts)",
]
STUBS = ["report.float -> symreal.symfloat (keeps float(x) symbolic; float('nan') is NaN)",
         "matrix/: tabulate, matplotlib and scipy replaced by recorders (squareform re-implemented faithfully, both directions)"]
ASSUMPTIONS = [
    "floats are exact rationals: IEEE-754 rounding of the three or four operations per metric is outside the claim",
    "line counts are integers >= 0; platform names are the strings A..D (and their renamings)",
    "coverage() with lines but no platform at all: 0.0 and NaN are both accepted (docstring and property wording differ)",
    "distance of two platforms that both have no lines: NaN and 0 are both accepted, an exception is not",
    "divergence when some platform pair has an empty union: any non-exceptional result accepted",
]
BOUNDS = {
    "quick": "every key shape (subset of the 2^P platform sets present as keys) for P<=2 and all P=3 shapes with >=6 keys; "
             "every non-empty `platforms` subset; all renamings of P names; one symbolic scaling factor k>=1; counts unbounded; "
             "matrix/: 3 tables (3 and 4 platforms, fixed counts) x 24 insertion orders x 24 set-iteration orders (CrossHair-enumerated)",
    "thorough": "all 256 key shapes for P=3, plus P=4 with all 16 keys and with every 15-key shape; counts unbounded",
}
EXPLANATION = (
    "The real report.py functions are executed on symbolic exact fractions of z3 real polynomials over the line "
    "counts (one symbolic real >= 0 per key, which covers all integers); every branch and every division forks on a z3 feasibility query. For each "
    "leaf the metric's definition (built independently from the key shape) is posed as one cross-multiplied polynomial "
    "(in)equality and discharged as an unsat query; sat models are replayed on the real functions with Python ints and "
    "compared with fractions.Fraction arithmetic."
)

NAMES = "ABCD"


def _report():
    import codebasin.report as report

    report.float = sr.symfloat
    return report


def _shapes(P):
    names = NAMES[:P]
    keys = [frozenset(c) for r in range(P + 1) for c in it.combinations(names, r)]
    for mask in range(1, 1 << len(keys)):
        yield tuple(k for i, k in enumerate(keys) if mask >> i & 1)


def _keyname(k):
    return "".join(sorted(k)) or "0"


def obligations(tier, known):
    obs = []
    todo = []
    for P in (1, 2):
        todo += [(P, s) for s in _shapes(P)]
    p3 = list(_shapes(3))
    if tier == "quick":
        todo += [(3, s) for s in p3 if len(s) >= 6]
    else:
        todo += [(3, s) for s in p3]
        full4 = [s for s in _shapes(4) if len(s) >= 15]
        todo += [(4, s) for s in full4]
    regions = sorted(known)
    for P, shape in todo:
        sid = "P%d:" % P + ",".join(_keyname(k) for k in shape)
        obs.append(Ob(id="shape/" + sid, kind="fn", module=__name__, func="check_shape",
                      params=dict(P=P, shape=[sorted(k) for k in shape], regions=regions),
                      timeout=300 if P < 4 else 900, twin=False, group="P%d" % P))
    # the printed distance matrix and the input of the dendrogram (report.clustering): every cell is the distance of the
    # pair its labels name, for every insertion / iteration order (harness shared with C14's clustering/ family;
    # table 2 and 3 have four platforms, where row-major and column-major pair orders differ)
    for i in (1, 2, 3):
        obs.append(Ob(id="matrix/table%d" % i, kind="ch", module="vp.harness.c14", func="h_cluster", params=dict(table=i), timeout=400,
                      group="matrix"))
    for fid in regions:
        obs.append(Ob(id="witness/" + fid, kind="fn", module=__name__, func="check_shape",
                      params=dict(P=2, shape=[["A"], ["B"]], regions=[], witness=fid),
                      expect="witness:" + fid, twin=False, group="witness"))
    return obs


# --------------------------------------------------------------------------


def _sum(xs):
    xs = list(xs)
    if not xs:
        return z3.RealVal(0)
    return z3.Sum(xs) if len(xs) > 1 else xs[0]


class _Case:
    def __init__(self, report, P, shape):
        self.report = report
        self.P = P
        self.names = NAMES[:P]
        self.shape = [frozenset(k) for k in shape]
        self.c = {k: z3.Real("c_" + _keyname(k)) for k in self.shape}
        self.base = [v >= 0 for v in self.c.values()]
        self.present = sorted(set().union(*self.shape)) if self.shape else []

    def setmap(self, scale=None, rename=None, reverse=False):
        items = list(self.c.items())
        if reverse:
            items.reverse()
        d = {}
        for k, v in items:
            kk = frozenset(rename[x] for x in k) if rename else k
            d[kk] = sr.Sym(v * scale if scale is not None else v, z3.RealVal(1))
        return d

    # reference quantities
    def total(self):
        return _sum(self.c.values())

    def used(self, sel):
        return _sum(v for k, v in self.c.items() if k & set(sel))

    def union(self, p, q):
        return _sum(v for k, v in self.c.items() if (p in k) or (q in k))

    def symdiff(self, p, q):
        return _sum(v for k, v in self.c.items() if (p in k) != (q in k))


def _model_counts(case, model):
    """integer counts from a model over the reals: scale by the lcm of the denominators (every metric is
    homogeneous of degree 0, and the replay on the real code is the judge)"""
    fr = {_keyname(k): model.eval(v, model_completion=True).as_fraction() for k, v in case.c.items()}
    L = 1
    for f in fr.values():
        L = L * f.denominator // math.gcd(L, f.denominator)
    return {n: int(f * L) for n, f in fr.items()}


def _model_k(model):
    for d in model.decls():
        if str(d) == "k":
            f = model[d].as_fraction()
            return {"k": [f.numerator, f.denominator]}
    return {}


def check_shape(params):
    report = _report()
    P = params["P"]
    case = _Case(report, P, params["shape"])
    regions = set(params.get("regions", []))
    witness = params.get("witness")
    sr.Stats.queries = 0
    sr.Stats.solver_s = 0.0
    t0 = time.process_time()
    cex = []
    unknown = []
    nontrivial = 0
    sample = None

    def oblige(name, thunk, claim_of_leaf, extra_base=(), args=None):
        nonlocal nontrivial, sample
        try:
            leaves = sr.explore(thunk, case.base + list(extra_base))
        except sr.Inconclusive as e:
            unknown.append(name + ": " + str(e))
            return
        for leaf in leaves:
            claim = claim_of_leaf(leaf)
            if isinstance(claim, tuple):
                r, model = sr.prove_all(leaf.pc, claim[0], claim[1])
            else:
                r, model = sr.prove(leaf.pc, claim)
            nontrivial += 1
            if r == "sat":
                counts = _model_counts(case, model)
                extra = _model_k(model)
                cex.append(dict(check=name, shape=params["shape"], counts=counts, args=args, leaf=leaf.kind,
                                value=str(leaf.value)[:120], **extra))
            elif r != "unsat":
                unknown.append(name + ": z3 " + r)
            elif sample is None:
                sample = dict(check=name, leaf=leaf.kind, path_condition=[str(c) for c in leaf.pc][:6],
                              value=str(leaf.value)[:160])

    names = case.names
    tot = case.total()
    F = z3.BoolVal(False)
    sels = [None] + [set(c) for r in range(1, P + 1) for c in it.combinations(names, r)]

    def in_region_dist(p, q):
        return case.union(p, q) == 0

    # the open known finding (if any) restricts where we look
    dist_excl = "C07-distance-empty-union" in regions

    # ---- coverage ----
    for sel in sels:
        s_eff = sel if sel else set(case.present)
        used = case.used(s_eff)

        def claim(leaf, used=used, s_eff=s_eff):
            if leaf.kind == "nan":
                return tot == 0 if s_eff else z3.BoolVal(True)
            if leaf.kind == "exc":
                return F
            n, d = leaf.value.num, leaf.value.den
            return z3.And(tot != 0, n * tot == 100 * used * d, n >= 0, n <= 100 * d)

        if witness is None:
            oblige("coverage", lambda sel=sel: report.coverage(case.setmap(), set(sel) if sel else None), claim,
                   args=sorted(sel) if sel else None)

    # ---- average coverage ----
    for sel in sels:
        s_eff = sorted(sel) if sel else list(case.present)

        def claim(leaf, s_eff=s_eff):
            undefined = z3.BoolVal(True) if not s_eff else tot == 0
            if leaf.kind == "nan":
                return undefined
            if leaf.kind == "exc":
                return F
            n, d = leaf.value.num, leaf.value.den
            return z3.And(z3.Not(undefined), n * tot * len(s_eff) == d * 100 * _sum(case.used({p}) for p in s_eff),
                          n >= 0, n <= 100 * d)

        if witness is None:
            oblige("average_coverage", lambda sel=sel: report.average_coverage(case.setmap(), set(sel) if sel else None),
                   claim, args=sorted(sel) if sel else None)

    # ---- distance ----
    for p in names:
        for q in names:
            U, D = case.union(p, q), case.symdiff(p, q)

            def claim(leaf, U=U, D=D):
                if leaf.kind == "nan":
                    return U == 0
                if leaf.kind == "exc":
                    return F
                n, d = leaf.value.num, leaf.value.den
                # empty union: NaN or the conventional 0 are both accepted, an exception is not
                return z3.Or(z3.And(U != 0, n * U == D * d, n >= 0, n <= d), z3.And(U == 0, n == 0))

            extra = []
            if witness == "C07-distance-empty-union":
                extra = [U == 0]
            elif witness is not None:
                continue
            elif dist_excl:
                extra = [U != 0]
            oblige("distance", lambda p=p, q=q: report.distance(case.setmap(), p, q), claim, extra, args=[p, q])

    # ---- divergence ----
    pres = case.present
    pairs = list(it.combinations(pres, 2))
    Us = [case.union(p, q) for p, q in pairs]
    Ds = [case.symdiff(p, q) for p, q in pairs]

    def div_claim(leaf):
        if len(pres) < 2:
            return z3.BoolVal(leaf.kind == "nan")
        all_def = z3.And([u != 0 for u in Us])
        if leaf.kind == "exc":
            return F
        if leaf.kind == "nan":
            return z3.Not(all_def)
        n, d = leaf.value.num, leaf.value.den
        # reference: e_i is the Jaccard distance of pair i, named by e_i * U_i == D_i; each e_i is shown to lie
        # in [0,1] by its own small query and then used as a (proven) lemma
        es = [z3.Real("e_%d" % i) for i in range(len(pairs))]
        hyps = []
        for e, u, dd in zip(es, Us, Ds):
            hyps += [u != 0, e * u == dd]
            r, _m = sr.prove(case.base + [u != 0, e * u == dd], z3.And(e >= 0, e <= 1))
            if r == "unsat":
                hyps += [e >= 0, e <= 1]
        # when some pair is undefined any non-exceptional result is accepted: the goals are only required
        # under all_def, which the hypotheses state
        return (hyps, [n * len(pairs) == d * _sum(es), n >= 0, n <= d])

    extra = []
    if witness == "C07-distance-empty-union":
        extra = [z3.Or([u == 0 for u in Us])] if Us else [z3.BoolVal(False)]
    elif dist_excl and Us:
        extra = [z3.And([u != 0 for u in Us])]
    if witness in (None, "C07-distance-empty-union"):
        oblige("divergence", lambda: report.divergence(case.setmap()), div_claim, extra)

    # ---- invariance: renaming / insertion order / scaling ----
    if witness is None:
        k = z3.Real("k")
        excl = [z3.And([u != 0 for u in Us])] if (dist_excl and Us) else []
        perms = [dict(zip(names, pi)) for pi in it.permutations(names)][1:]
        if P >= 3:
            perms = [perms[0], perms[-1], perms[len(perms) // 2]] + [dict(zip(names, ["Zz" + n for n in reversed(names)]))]
        else:
            perms.append(dict(zip(names, ["Zz" + n for n in reversed(names)])))
        # names that contain one another (cpu / cpu-avx512 style) and an order that differs from the definition order
        perms.append(dict(zip(names, ["cpu-avx-512", "cpu", "cpu-avx", "c"][:len(names)])))

        def same(thunk1, thunk2, name, extra_base=()):
            nonlocal nontrivial
            try:
                l1 = sr.explore(thunk1, case.base + list(extra_base))
                l2 = sr.explore(thunk2, case.base + list(extra_base))
            except sr.Inconclusive as e:
                unknown.append(name + ": " + str(e))
                return
            for a in l1:
                for b in l2:
                    pc = a.pc + b.pc
                    r0, _ = sr._check(pc)
                    if r0 == "unsat":
                        continue
                    nontrivial += 1
                    if a.kind != b.kind:
                        _rr, slv = sr._check(pc)
                        model = slv.model()
                        cex.append(dict(check=name, shape=params["shape"], counts=_model_counts(case, model),
                                        leaf=a.kind + "/" + b.kind,
                                        **_model_k(model)))
                        continue
                    if a.kind != "num":
                        continue
                    goal = a.value.num * b.value.den == b.value.num * a.value.den
                    r, model = sr.prove(pc, goal)
                    if r == "unknown":
                        # sums of several quotients: match the quotients of the two runs pairwise first
                        lem = sr.quotient_lemmas(pc, a.quotients, b.quotients)
                        r, model = sr.prove(pc + lem, goal)
                    if r == "sat":
                        cex.append(dict(check=name, shape=params["shape"], counts=_model_counts(case, model),
                                        leaf="num",
                                        **_model_k(model)))
                    elif r != "unsat":
                        unknown.append(name + ": z3 " + r)

        fns = [
            ("coverage", lambda sm, rn: report.coverage(sm)),
            ("average_coverage", lambda sm, rn: report.average_coverage(sm)),
            ("divergence", lambda sm, rn: report.divergence(sm)),
        ]
        if len(names) >= 2:
            fns.append(("distance", lambda sm, rn: report.distance(sm, rn(names[0]), rn(names[1]))))
        for fname, f in fns:
            eb = excl if fname in ("divergence", "distance") else []
            ident = lambda x: x
            for rn in perms:
                same(lambda: f(case.setmap(), ident), lambda: f(case.setmap(rename=rn, reverse=True), lambda x: rn[x]),
                     fname + "/rename", eb)
            same(lambda: f(case.setmap(), ident), lambda: f(case.setmap(scale=k), ident), fname + "/scale",
                 eb + [k >= 1])

    res = dict(paths=0, queries=sr.Stats.queries, solver_s=sr.Stats.solver_s, cpu_s=time.process_time() - t0,
               compared=nontrivial, sample=sample)
    if cex:
        res.update(verdict="refuted", cex=cex[:8], multi=True, detail="%d failing leaves" % len(cex))
    elif unknown:
        res.update(verdict="inconclusive", detail="; ".join(unknown[:4]))
    else:
        res.update(verdict="discharged", detail="all leaves unsat")
    return res


# --------------------------------------------------------------------------
# replay: real functions, Python ints, exact rationals


def _isnan(x):
    return isinstance(x, float) and math.isnan(x)


def _close(x, frac):
    return (not _isnan(x)) and abs(Fraction(x) - frac) <= Fraction(1, 10**9) * max(1, abs(frac))


def replay(obd, cex):
    import importlib

    import codebasin.report as report

    importlib.reload(report)  # make sure the real `float` is in place
    counts = cex["counts"]
    ka, kb = cex.get("k", [1, 1])

    def mk(scale=1, rename=None):
        return {frozenset(() if n == "0" else (rename[c] if rename else c for c in n)): v * scale for n, v in counts.items()}

    sm = mk()
    name = cex["check"]
    pres = sorted(set().union(*sm.keys()))
    tot = sum(sm.values())

    def ref_cov(sel):
        return Fraction(100 * sum(v for s, v in sm.items() if s & set(sel)), tot) if tot else None

    def ref_dist(p, q):
        U = sum(v for s, v in sm.items() if p in s or q in s)
        D = sum(v for s, v in sm.items() if (p in s) != (q in s))
        return Fraction(D, U) if U else None

    detail = dict(check=name, setmap={_keyname(a): b for a, b in sm.items()}, args=cex.get("args"))
    try:
        base = name.split("/")[0]
        if "/" in name:
            f = getattr(report, base)
            if base == "distance":
                a = f(mk(kb), "A", "B")
                b = f(mk(ka), "A", "B")
            else:
                a = f(mk(kb))
                b = f(mk(ka))
            detail.update(a=repr(a), b=repr(b), scale_factors=[kb, ka])
            bad = (_isnan(a) != _isnan(b)) or (not _isnan(a) and abs(a - b) > 1e-9)
            if name.endswith("/rename"):
                # renaming witnesses: re-evaluate every renaming
                bad = False
                a = f(sm, "A", "B") if base == "distance" else f(sm)
                P = obd["params"]["P"]
                renamings = [dict(zip(NAMES[:P], pi)) for pi in it.permutations(NAMES[:P])]
                renamings.append(dict(zip(NAMES[:P], ["Zz" + n for n in reversed(NAMES[:P])])))
                renamings.append(dict(zip(NAMES[:P], ["cpu-avx-512", "cpu", "cpu-avx", "c"][:P])))
                for rn in renamings:
                    b = f(mk(1, rn), rn["A"], rn["B"]) if base == "distance" else f(mk(1, rn))
                    if (_isnan(a) != _isnan(b)) or (not _isnan(a) and abs(a - b) > 1e-9):
                        bad = True
                        detail.update(b=repr(b), renaming=rn)
            return dict(reproduced=bad, detail=detail)
        if base == "coverage":
            sel = cex.get("args")
            got = report.coverage(sm, set(sel) if sel else None)
            exp = ref_cov(sel if sel else pres)
            ok = (_isnan(got) and (exp is None or not pres)) or (exp is not None and _close(got, exp))
        elif base == "average_coverage":
            sel = cex.get("args") or pres
            got = report.average_coverage(sm, set(cex["args"]) if cex.get("args") else None)
            if not sel or not tot:
                exp = None
            else:
                exp = sum(ref_cov([p]) for p in sel) / len(sel)
            ok = _isnan(got) if exp is None else _close(got, exp)
        elif base == "distance":
            p, q = cex["args"]
            got = report.distance(sm, p, q)
            exp = ref_dist(p, q)
            ok = (_isnan(got) or got == 0) if exp is None else _close(got, exp)
        elif base == "divergence":
            got = report.divergence(sm)
            pairs = list(it.combinations(pres, 2))
            ds = [ref_dist(p, q) for p, q in pairs]
            if len(pres) < 2:
                ok, exp = _isnan(got), None
            elif any(d is None for d in ds):
                ok, exp = True, "partially undefined: any non-exceptional result"
            else:
                exp = sum(ds) / len(ds)
                ok = _close(got, exp)
        detail.update(got=repr(got), expected=str(exp))
        return dict(reproduced=not ok, detail=detail)
    except Exception as e:
        detail.update(exception=repr(e))
        return dict(reproduced=True, detail=detail)

ENGINE = "symreal+z3, crosshair+z3 (matrix/)"
TECHNIQUE = "symbolic execution of the real report.py metric functions over exact z3-real fractions; one unsat query per leaf and definition; the printed distance matrix of clustering() by CrossHair-enumerated orders against distance() cell by cell"
CLAIM = ("For every key shape within the bound and ALL non-negative line counts, each metric equals its definition, stays in range, "
         "is NaN exactly when undefined, never raises, and is invariant under renaming, insertion order and scaling - decided by z3 "
         "(unsat) per execution leaf of the real functions. Bounded in the number of platforms (<=3, 4 in thorough), unbounded in counts.")
LEVEL_NOTE = ("Trusted: z3 nonlinear real arithmetic; the operator-overloading executor vp/symreal.py (rebinding report.float); floats "
              "treated as exact rationals. Outside: IEEE rounding, more than 4 platforms, the drawing of the dendrogram (its labels, the printed matrix and the linkage input are checked in matrix/, for fixed counts).")
