"""C02 - #if expressions have C integer-constant-expression semantics.

Families (see DESIGN.md section 7, C02):
  ops/   E3: the real __apply_binary_op/__apply_unary_op on npshim scalars with 64-bit symbolic payloads
         vs ISO C (vp.refs.ref_expr.Sem over bit-vectors), all 2^128 operand pairs per query
  parse/ E3: the real expression()/primary() (term stubbed to hand out symbolic operands) vs the
         recursive-descent reference on the same operands: precedence, associativity, ?: typing
  lit/   E1 (CrossHair): the real term() on literals with symbolic digit strings / characters
  def/   E1: defined X, defined(X), leftover identifiers with symbolic definedness
  elif/  native+solver-free sanity is *not* used; the dead-#elif clause is decided in C01 layer A
"""

from __future__ import annotations

import contextlib
import itertools as it
import time
from collections import Counter

import z3

from vp import bvsem, npshim
from vp.driver import Ob
from vp.refs import ref_expr

PROPERTY = "C02"
LEVEL = "other"
ENGINE = "bvsem+z3, crosshair+z3"
TECHNIQUE = ("real evaluator code executed on symbolic 64-bit NumPy-scalar models; z3 bit-vector unsat query per execution leaf "
             "against ISO C semantics; CrossHair on the real literal conversion")
FUNCTIONS = [
    "codebasin/preprocessor.py:ExpressionEvaluator.__apply_binary_op",
    "codebasin/preprocessor.py:ExpressionEvaluator.__apply_unary_op",
    "codebasin/preprocessor.py:ExpressionEvaluator.expression",
    "codebasin/preprocessor.py:ExpressionEvaluator.primary",
    "codebasin/preprocessor.py:ExpressionEvaluator.term",
    "codebasin/preprocessor.py:ExpressionEvaluator.evaluate",
    "codebasin/preprocessor.py:Lexer.tokenize (replays and lit/)",
    "codebasin/preprocessor.py:MacroExpander.expand (def/)",
]
STUBS = [
    "preprocessor.np -> vp.npshim (model of NumPy 1.26 int64/uint64/bool_ scalars; validated against real NumPy on a boundary grid "
    "and on every witness, every run)",
    "parse/: ExpressionEvaluator.term replaced by a stub handing out the symbolic operands",
]
ASSUMPTIONS = [
    "NumPy scalar semantics are as modelled in vp/npshim.py (checked pointwise against the installed NumPy on every run)",
    "intmax_t/uintmax_t are 64 bit; >> on negative values is arithmetic (gcc/clang)",
    "expressions ISO C leaves undefined or gcc diagnoses (division by zero, shift count <0 or >=64, signed overflow, "
    "left shift of a negative value) are outside the property",
    "a local (per-operator) mismatch is reported only after it is confirmed end-to-end: an expression text whose truth value "
    "under the real Lexer+ExpressionEvaluator+NumPy differs from ISO C's",
]
BOUNDS = {
    "quick": "ops/: all 64-bit values, all 18 binary + 4 unary operators, operand kinds {intmax_t, uintmax_t}^2; "
             "parse/: every ordered pair of binary operators and unary/paren/?: placements with 3-5 symbolic 64-bit "
             "signed operands (bounded by solver time per query: 20 s, then reported inconclusive); lit/: digit strings <= 3",
    "thorough": "as quick with 120 s per query, mixed signed/unsigned operand kinds in parse/, digit strings <= 5, operator triples",
}
EXPLANATION = (
    "ops/: the real operator-application functions are executed on models of NumPy scalars carrying symbolic 64-bit "
    "bit-vectors (every truth test forks on a z3 feasibility query); for each leaf z3 decides that no operand pair with a "
    "C-defined result makes the returned scalar differ in value or signedness from ISO C. Because results are again "
    "int64/uint64 scalars this is an inductive step covering expressions of any depth. parse/: the real precedence-climbing "
    "parser runs on skeletons whose operands are symbolic, the result is compared with a recursive-descent reference on the "
    "same symbolic operands. lit/, def/: CrossHair explores the real term()/expand() on symbolic spellings."
)

BINOPS = ["*", "/", "%", "+", "-", "<<", ">>", "<", "<=", ">", ">=", "==", "!=", "&", "^", "|", "&&", "||"]
UNOPS = ["-", "+", "!", "~"]
KINDS = ["i64", "u64"]


# --------------------------------------------------------------------------
# plumbing


@contextlib.contextmanager
def shimmed():
    import codebasin.preprocessor as pp

    real = pp.np
    pp.np = npshim
    try:
        yield pp
    finally:
        pp.np = real


def _cls(kind):
    return npshim.int64 if kind == "i64" else npshim.uint64


def _render(kind, v):
    """concrete operand -> C source text"""
    if kind == "u64":
        return "%du" % (v % (1 << 64))
    v = bvsem.to_signed(v % (1 << 64))
    if v == -(1 << 63):
        return "(-9223372036854775807-1)"
    return "(-%d)" % -v if v < 0 else "%d" % v


def _cbi_truth(text):
    """truth value through the real Lexer + ExpressionEvaluator + NumPy (unpatched)"""
    import warnings

    import codebasin.preprocessor as pp
    import numpy

    assert pp.np is numpy
    with warnings.catch_warnings():
        warnings.simplefilter("ignore")
        toks = pp.Lexer(text).tokenize()
        return bool(pp.ExpressionEvaluator(toks).evaluate())


def confirm_end_to_end(text):
    """Try observer contexts around expression `text`; return a dict describing the first whose truth
    under CBI differs from ISO C (or raises), else None."""
    try:
        cv = ref_expr.evaluate(ref_expr.tokenize(text))
    except ref_expr.Malformed:
        return None
    if cv.ok is not True:
        return None
    K = "%du" % cv.v if cv.u else ("(-9223372036854775807-1)" if cv.v == -(1 << 63) else
                                   ("(-%d)" % -cv.v if cv.v < 0 else str(cv.v)))
    observers = ["(%s) == " + K, "%s", "(%s) != 0", "-(%s) < 0", "(%s) + 1 > 1", "((%s) | 0) == " + K,
                 "(%s) - 1 < 0", "~(%s) < 0", "(%s) / 2 == 0", "(%s) * 2 == 2", "(%s) >> 1 == 0", "(%s) < 1", "(%s) > 1",
                 "((%s) ^ 1) == 0", "!(%s)"]
    for ob in observers:
        t = ob % text
        try:
            exp = ref_expr.truth_of_text(t)
        except (ref_expr.Undefined, ref_expr.Malformed):
            continue
        try:
            got = _cbi_truth(t)
        except Exception as e:
            return dict(observer=t, expected=exp, observed="exception " + repr(e)[:120])
        if got != exp:
            return dict(observer=t, expected=exp, observed=got)
    return None


def _leaf_claim(leaf, cv):
    """z3 formula: under C-definedness the leaf's scalar equals the C value in value and signedness"""
    if leaf.kind in ("i64", "u64"):
        if (leaf.kind == "u64") != bool(cv.u):
            return z3.Not(cv.ok)
        return z3.Implies(cv.ok, leaf.value == cv.v)
    return z3.Not(cv.ok)  # bool_/python bool/float64/exception have no C counterpart


def _solve_leafs(leaves, cv, vars_, render, timeout_ms, hints=()):
    """returns (verdict, cex|None, info). CEGAR: a sat model counts only once confirmed end-to-end."""
    info = Counter()
    unknown = False
    for leaf in leaves:
        claim = _leaf_claim(leaf, cv)
        blocked = []
        for attempt in range(12):
            extra = []
            if attempt < len(hints) * 2 and attempt % 2 == 0:
                extra = [hints[attempt // 2]]
            # ladder: z3 briefly -> cvc5 with the integer encoding of bit-vectors -> z3 with the full budget
            q = leaf.pc + [z3.Not(claim)] + blocked + extra
            r, model, _ = bvsem.check(q, min(3000, timeout_ms))
            info["queries"] += 1
            if r == "unknown" and not extra:
                r2 = bvsem.check_cvc5(q, max(5, timeout_ms // 2000))
                info["queries"] += 1
                if r2 == "unsat":
                    r = "unsat"
                else:
                    r, model, _ = bvsem.check(q, timeout_ms)
                    info["queries"] += 1
            if r == "unsat":
                if extra:
                    continue
                break
            if r == "unknown":
                if extra:
                    continue
                unknown = True
                break
            vals = [bvsem.bv_value(model, v) for v in vars_]
            text = render(vals)
            with _real_numpy():
                hit = confirm_end_to_end(text)
            info["witnesses_tried"] += 1
            if hit:
                return "refuted", dict(operands=vals, text=text, leaf=leaf.kind, exc=leaf.exc, **hit), info
            blocked.append(z3.Or([v != val for v, val in zip(vars_, vals)]))
        else:
            info["latent"] += 1
            unknown = True
    return ("inconclusive" if unknown else "discharged"), None, info


@contextlib.contextmanager
def _real_numpy():
    import codebasin.preprocessor as pp
    import numpy

    cur = pp.np
    pp.np = numpy
    try:
        yield
    finally:
        pp.np = cur


# --------------------------------------------------------------------------
# ops/


def check_op(params):
    op, kinds, arity = params["op"], params["kinds"], params["arity"]
    tmo = params.get("timeout_ms", 20000)
    bvsem.Stats.queries = 0
    bvsem.Stats.solver_s = 0.0
    t0 = time.process_time()
    a, b = z3.BitVec("a", 64), z3.BitVec("b", 64)
    sem = bvsem.c_sem()
    res = dict(paths=0, compared=0, sample=None)
    excl = _region_constraints(params.get("regions", []), params, a, b)
    within = _region_within(params.get("witness"), params, a, b)
    with shimmed() as pp:
        EE = pp.ExpressionEvaluator
        try:
            if arity == 2:
                f = EE._ExpressionEvaluator__apply_binary_op
                leaves = bvsem.explore(lambda: f(op, _cls(kinds[0])(a), _cls(kinds[1])(b)), excl + within)
                cv = sem.binop(op, ref_expr.CVal(kinds[0] == "u64", a), ref_expr.CVal(kinds[1] == "u64", b))
                vars_ = [a, b]
                render = lambda vals: "%s %s %s" % (_render(kinds[0], vals[0]), op, _render(kinds[1], vals[1]))
                hints = [a < 0, b < 0, z3.And(a < 0, b < 0), z3.UGT(a, 1 << 53), z3.ULT(a, 100), z3.ULT(b, 100)]
            else:
                f = EE._ExpressionEvaluator__apply_unary_op
                leaves = bvsem.explore(lambda: f(op, _cls(kinds[0])(a)), excl + within)
                cv = sem.unop(op, ref_expr.CVal(kinds[0] == "u64", a))
                vars_ = [a]
                render = lambda vals: "%s%s" % (op, _render(kinds[0], vals[0]))
                hints = [a < 0, z3.ULT(a, 100)]
        except (bvsem.Inconclusive, npshim.Unmodelled) as e:
            res.update(verdict="inconclusive", detail="%s: %s" % (type(e).__name__, e), queries=bvsem.Stats.queries,
                       solver_s=bvsem.Stats.solver_s, cpu_s=time.process_time() - t0)
            return res
        verdict, cex, info = _solve_leafs(leaves, cv, vars_, render, tmo, hints)
    res.update(verdict=verdict, cex=cex, queries=bvsem.Stats.queries, solver_s=bvsem.Stats.solver_s,
               cpu_s=time.process_time() - t0, compared=len(leaves),
               detail="%d leaves %s" % (len(leaves), dict(info)),
               sample=dict(op=op, kinds=kinds, leaves=[(l.kind, str(l.value)[:80]) for l in leaves][:4]))
    return res


def _region_constraints(regions, params, a, b):
    out = []
    for r in regions:
        c = _region_pred(r, params, a, b)
        if c is not None:
            out.append(z3.Not(c))
    return out


def _region_within(fid, params, a, b):
    if not fid:
        return []
    c = _region_pred(fid, params, a, b)
    return [c] if c is not None else [z3.BoolVal(False)]


def _region_pred(fid, params, a, b):
    """known-finding regions over (op, kinds, a, b); None = region does not touch this obligation"""
    return None


# --------------------------------------------------------------------------
# parse/


def _mk_tokens(pp, items):
    """items: list of ('op', s) | ('punc', s) | ('val', name)"""
    toks = []
    for kind, s in items:
        if kind == "val":
            toks.append(pp.NumericalConstant("h", 0, True, s))
        elif s in ("(", ")"):
            toks.append(pp.Punctuator("h", 0, True, s))
        else:
            toks.append(pp.Operator("h", 0, True, s))
    return toks


def skeletons(tier):
    """(id, items) - operands are named v0..vn"""
    out = []

    def V(i):
        return ("val", "v%d" % i)

    for o1 in BINOPS:
        for o2 in BINOPS:
            out.append(("bin/%s/%s" % (o1, o2), [V(0), ("op", o1), V(1), ("op", o2), V(2)]))
    for u in UNOPS:
        for o in BINOPS:
            out.append(("un-bin/%s/%s" % (u, o), [("op", u), V(0), ("op", o), V(1)]))
            out.append(("bin-un/%s/%s" % (o, u), [V(0), ("op", o), ("op", u), V(1)]))
        for u2 in UNOPS:
            out.append(("un-un/%s/%s" % (u, u2), [("op", u), ("op", u2), V(0)]))
    for o1 in ["-", "/", "<<", "<", "==", "&&", "||", "|", "*"]:
        for o2 in ["-", "/", ">>", ">", "!=", "&&", "||", "&", "+"]:
            out.append(("paren-r/%s/%s" % (o1, o2), [V(0), ("op", o1), ("punc", "("), V(1), ("op", o2), V(2), ("punc", ")")]))
            out.append(("paren-l/%s/%s" % (o1, o2), [("punc", "("), V(0), ("op", o1), V(1), ("punc", ")"), ("op", o2), V(2)]))
    Q, C = ("op", "?"), ("op", ":")
    out.append(("tern/plain", [V(0), Q, V(1), C, V(2)]))
    out.append(("tern/right", [V(0), Q, V(1), C, V(2), Q, V(3), C, V(4)]))
    out.append(("tern/mid", [V(0), Q, V(1), Q, V(2), C, V(3), C, V(4)]))
    for o in BINOPS:
        out.append(("tern/cond-%s" % o, [V(0), ("op", o), V(1), Q, V(2), C, V(3)]))
        out.append(("tern/else-%s" % o, [V(0), Q, V(1), C, V(2), ("op", o), V(3)]))
        out.append(("tern/then-%s" % o, [V(0), Q, V(1), ("op", o), V(2), C, V(3)]))
    for u in UNOPS:
        out.append(("tern/un-%s" % u, [("op", u), V(0), Q, V(1), C, V(2)]))
    if tier == "thorough":
        for o1, o2, o3 in it.product(["-", "/", "<<", "<", "==", "&", "&&", "||", "+", "*"], repeat=3):
            out.append(("tri/%s/%s/%s" % (o1, o2, o3), [V(0), ("op", o1), V(1), ("op", o2), V(2), ("op", o3), V(3)]))
    return out


def check_parse(params):
    items = [tuple(x) for x in params["items"]]
    kinds = params["kinds"]
    tmo = params.get("timeout_ms", 20000)
    bvsem.Stats.queries = 0
    bvsem.Stats.solver_s = 0.0
    t0 = time.process_time()
    names = [s for k, s in items if k == "val"]
    vars_ = {n: z3.BitVec(n, 64) for n in names}
    kind_of = dict(zip(names, kinds))
    sem = bvsem.c_sem()
    res = dict(paths=0, compared=0, sample=None)
    # "*", "/", "%" are abstracted by uninterpreted functions on both sides when they occur in a skeleton: their
    # value semantics is the subject of ops/ (decided at 64 bits there); here only the grouping matters, and
    # 64-bit multiplier/divider circuits nested two deep do not finish.  Typing of the result follows C.
    hard = {"*", "/", "%"} & {s for k, s in items if k == "op"}
    # guard/ skeletons: the divisor is pinned to zero and the REAL / and % run, so that a division by zero on the side
    # C does not evaluate (0 && 1/0, 1 ? 1 : 1/0) is seen to be harmless
    zero = params.get("zero") or []
    if zero:
        hard = set()
    ufs = {}

    def uf(op, ku, x, y):
        key = (op, ku)
        if key not in ufs:
            ufs[key] = z3.Function("uf_%s_%s" % ({"*": "mul", "/": "div", "%": "rem"}[op], "u" if ku else "s"),
                                   z3.BitVecSort(64), z3.BitVecSort(64), z3.BitVecSort(64))
        return ufs[key](x, y)

    class SemUF(ref_expr.Sem):
        def binop(self, op, a, b):
            if op in hard:
                ku = bool(a.u or b.u)
                return ref_expr.CVal(ku, uf(op, ku, a.v, b.v), self.A.AND(a.ok, b.ok))
            return super().binop(op, a, b)

    if hard:
        sem = SemUF(bvsem.BVAlg)
    with shimmed() as pp:
        real_apply = pp.ExpressionEvaluator._ExpressionEvaluator__apply_binary_op

        def apply_stub(op, lhs, rhs):
            if op in hard:
                ku = lhs.kind == "u64" or rhs.kind == "u64"
                return (npshim.uint64 if ku else npshim.int64)(uf(op, ku, lhs.v, rhs.v))
            return real_apply(op, lhs, rhs)

        def run():
            ev = pp.ExpressionEvaluator(_mk_tokens(pp, items))
            if hard:
                ev._ExpressionEvaluator__apply_binary_op = apply_stub

            def term():
                tok = ev.match_type(pp.NumericalConstant)
                return _cls(kind_of[tok.token])(vars_[tok.token])

            ev.term = term
            r = ev.expression()
            if not ev.eol():
                raise pp.ParseError("trailing tokens")
            return r

        try:
            leaves = bvsem.explore(run, [vars_[n] == 0 for n in zero], max_leaves=128)
        except (bvsem.Inconclusive, npshim.Unmodelled) as e:
            res.update(verdict="inconclusive", detail="%s: %s" % (type(e).__name__, e), queries=bvsem.Stats.queries,
                       solver_s=bvsem.Stats.solver_s, cpu_s=time.process_time() - t0)
            return res
        rtoks = [ref_expr.CVal(kind_of[s] == "u64", vars_[s]) if k == "val" else s for k, s in items]
        cv = ref_expr.evaluate(rtoks, sem=sem)
        vs = [vars_[n] for n in names]

        def render(vals):
            m = dict(zip(names, vals))
            return " ".join(_render(kind_of[s], m[s]) if k == "val" else s for k, s in items)

        hints = [z3.And([z3.ULT(v, 16) for v in vs]), z3.And([z3.Or(z3.ULT(v, 16), z3.UGT(v, (1 << 64) - 16)) for v in vs])]
        verdict, cex, info = _solve_leafs(leaves, cv, vs, render, tmo, hints)
    res.update(verdict=verdict, cex=cex, queries=bvsem.Stats.queries, solver_s=bvsem.Stats.solver_s,
               cpu_s=time.process_time() - t0, compared=len(leaves), detail="%d leaves %s" % (len(leaves), dict(info)),
               sample=dict(skeleton=" ".join(s for _, s in items), leaves=len(leaves)))
    return res


# --------------------------------------------------------------------------
# model validation: npshim (both back ends) against the installed NumPy


GRID = [0, 1, 2, 3, 7, 63, 64, 65, (1 << 31), (1 << 53) + 1, (1 << 63) - 1, 1 << 63, (1 << 63) + 1, (1 << 64) - 2, (1 << 64) - 1]


def validate_numpy(params):
    """fn-obligation: every (python operator, kind pair) on the grid, real NumPy vs npshim/Z3BV (evaluated on
    constants through z3) and npshim/PyInt.  A disagreement is a harness error, not a finding."""
    import operator
    import warnings

    import numpy as np

    t0 = time.process_time()
    ops = dict(add=operator.add, sub=operator.sub, mul=operator.mul, floordiv=operator.floordiv, mod=operator.mod,
               lshift=operator.lshift, rshift=operator.rshift, and_=operator.and_, or_=operator.or_, xor=operator.xor,
               lt=operator.lt, le=operator.le, gt=operator.gt, ge=operator.ge, eq=operator.eq, ne=operator.ne)
    uops = dict(neg=operator.neg, pos=operator.pos, invert=operator.invert, not_=operator.not_)
    bad = []
    n = 0

    def real(kind, v):
        return np.int64(bvsem.to_signed(v)) if kind == "i64" else np.uint64(v)

    def norm(r):
        if isinstance(r, (np.int64,)):
            return ("i64", int(r) % (1 << 64))
        if isinstance(r, np.uint64):
            return ("u64", int(r))
        if isinstance(r, (np.bool_, bool)):
            return ("bool", bool(r))
        if isinstance(r, np.floating):
            return ("f64", None)
        return (type(r).__name__, None)

    def shim_norm(r, backend):
        if isinstance(r, npshim._Int):
            v = r.v
            if backend is npshim.Z3BV:
                v = z3.simplify(v).as_long()
            return (r.kind, v % (1 << 64))
        if isinstance(r, npshim.bool_):
            c = r.c
            if backend is npshim.Z3BV and not isinstance(c, bool):
                c = z3.is_true(z3.simplify(c))
            return ("bool", bool(c))
        if isinstance(r, bool):
            return ("bool", r)
        if isinstance(r, npshim.float64):
            return ("f64", None)
        return (type(r).__name__, None)

    class _C:
        def decide(self, c):
            c = z3.simplify(c)
            return z3.is_true(c)

    with warnings.catch_warnings():
        warnings.simplefilter("ignore")
        for backend in (npshim.Z3BV, npshim.PyInt):
            npshim.use(backend)
            npshim.Z3BV.ctx = _C()
            for k1 in KINDS:
                for name, f in uops.items():
                    for x in GRID:
                        if k1 == "i64" and name == "neg" and x == 1 << 63:
                            pass
                        try:
                            exp = norm(f(real(k1, x)))
                        except TypeError:
                            exp = ("TypeError", None)
                        try:
                            px = bvsem.to_signed(x) if (backend is npshim.PyInt and k1 == "i64") else x
                            got = shim_norm(f(_cls(k1)(backend.const(px, k1 == "i64") if backend is npshim.Z3BV else px)), backend)
                        except npshim.ShimTypeError:
                            got = ("TypeError", None)
                        except npshim.Unmodelled:
                            continue
                        n += 1
                        if exp != got:
                            bad.append((backend.name, name, k1, x, exp, got))
                for k2 in KINDS:
                    for name, f in ops.items():
                        for x in GRID:
                            for y in GRID:
                                if name in ("floordiv", "mod") and y == 0:
                                    continue
                                if name in ("lshift", "rshift") and (y >= 64):
                                    continue
                                if name in ("floordiv", "mod") and k1 == k2 == "i64" and x == 1 << 63 and y == (1 << 64) - 1:
                                    continue
                                try:
                                    exp = norm(f(real(k1, x), real(k2, y)))
                                except TypeError:
                                    exp = ("TypeError", None)
                                try:
                                    if backend is npshim.Z3BV:
                                        sx, sy = _cls(k1)(z3.BitVecVal(x, 64)), _cls(k2)(z3.BitVecVal(y, 64))
                                    else:
                                        sx = _cls(k1)(bvsem.to_signed(x) if k1 == "i64" else x)
                                        sy = _cls(k2)(bvsem.to_signed(y) if k2 == "i64" else y)
                                    got = shim_norm(f(sx, sy), backend)
                                except npshim.ShimTypeError:
                                    got = ("TypeError", None)
                                except npshim.Unmodelled:
                                    continue
                                n += 1
                                if exp != got:
                                    bad.append((backend.name, name, k1, k2, x, y, exp, got))
    npshim.Z3BV.ctx = None
    npshim.use(npshim.PyInt)
    res = dict(paths=0, queries=n, solver_s=0.0, cpu_s=time.process_time() - t0, compared=n,
               sample=dict(grid=GRID[:6], evaluations=n))
    if bad:
        res.update(verdict="inconclusive", detail="NUMPY MODEL MISMATCH (harness error): %r" % (bad[:5],))
    else:
        res.update(verdict="discharged", detail="npshim agrees with NumPy on %d grid evaluations" % n)
    return res


# --------------------------------------------------------------------------
# lit/ and def/ : CrossHair on the real term() / IfNode.evaluate_for_platform

P = {}
STATS = Counter()
LAST = {}

_DIGITS = {2: "01", 8: "01234567", 10: "0123456789", 16: "0123456789abcdefABCDEF"}
SUFFIXES = ["", "u", "U", "l", "L", "ll", "LL", "ul", "uL", "Ul", "UL", "lu", "lU", "Lu", "LU",
            "ull", "uLL", "Ull", "ULL", "llu", "llU", "LLu", "LLU"]


def _base_of(prefix):
    return {"": 10, "0": 8, "0x": 16, "0X": 16, "0b": 2, "0B": 2}[prefix]


def _digit_val(c):
    o = ord(c)
    if 48 <= o <= 57:
        return o - 48
    if 97 <= o <= 102:
        return o - 87
    return o - 55


def _lit_pre(tail):
    base = _base_of(P["prefix"])
    if not (P["minlen"] <= len(tail) <= P["maxlen"]):
        return False
    for c in tail:
        o = ord(c)
        if base == 16:
            if not (48 <= o <= 57 or 97 <= o <= 102 or 65 <= o <= 70):
                return False
        elif not (48 <= o < 48 + base):
            return False
    if P["prefix"] == "" and P["stem"] == "" and tail[0] == "0":
        return False  # that would be an octal constant: covered by prefix "0"
    return True


def _lit_region(fid, unsigned, value):
    if fid == "C02-big-unsuffixed-literal":
        return (not unsigned) and value >= (1 << 63)
    return False


def h_lit(tail: str) -> bool:
    """
    pre: _lit_pre(tail)
    post: _
    """
    import codebasin.preprocessor as pp

    base = _base_of(P["prefix"])
    digits = P["stem"] + tail
    v = 0
    for c in digits:
        v = v * base + _digit_val(c)
    u_suffix = "u" in P["suffix"].lower()
    # ISO C 6.4.4.1: first type in which the value fits; gcc diagnoses decimal/unsuffixed values >= 2^63
    # ("so large that it is unsigned") and anything >= 2^64: outside the property
    if v >= (1 << 64):
        return True
    if base == 10 and not u_suffix and v >= (1 << 63):
        return True
    unsigned = u_suffix or v >= (1 << 63)
    for fid in P.get("regions", []):
        if _lit_region(fid, u_suffix, v):
            return True
    w = P.get("witness")
    if w and not _lit_region(w, u_suffix, v):
        return True
    STATS["compared"] += 1
    if P.get("_twin"):
        return False
    text = P["prefix"] + digits + P["suffix"]
    tok = pp.NumericalConstant("h", 0, False, text)
    old = pp.np
    pp.np = npshim
    npshim.use(npshim.PyInt)
    try:
        r = pp.ExpressionEvaluator([tok]).term()
        ok = isinstance(r, npshim._Int) and (r.kind == "u64") == unsigned and (r.v % (1 << 64)) == v
        if P.get("_replay"):
            LAST.update(text=text, expected=("u64" if unsigned else "i64", v), observed=repr(r))
        return ok
    except Exception as e:
        if P.get("_replay"):
            LAST.update(text=text, expected=("u64" if unsigned else "i64", v), observed="exception " + repr(e))
        return False
    finally:
        pp.np = old


def _chr_pre(c):
    if P.get("lexer"):
        lo, hi = P["range"]
        return len(c) == 1 and lo <= ord(c) < hi and c != "'" and c != chr(92)
    return len(c) == 1 and 32 <= ord(c) < 127 and c != "'" and c != chr(92)


def h_char(c: str) -> bool:
    """
    pre: _chr_pre(c)
    post: _
    """
    import codebasin.preprocessor as pp

    STATS["compared"] += 1
    if P.get("_twin"):
        return False
    old = pp.np
    pp.np = npshim
    npshim.use(npshim.PyInt)
    try:
        if P.get("lexer"):
            toks = pp.Lexer("'" + c + "'").tokenize()
            if len(toks) != 1 or not isinstance(toks[0], pp.CharacterConstant):
                return False
        else:
            toks = [pp.CharacterConstant("h", 0, False, c)]
        r = pp.ExpressionEvaluator(toks[:1]).term()
        return isinstance(r, npshim.int64) and r.v == ord(c)
    except Exception as e:
        if P.get("_replay"):
            LAST.update(observed="exception " + repr(e))
        return False
    finally:
        pp.np = old


_ESC = [("n", 10), ("t", 9), ("r", 13), ("0", 0), ("a", 7), ("b", 8), ("f", 12), ("v", 11), (chr(92), 92), ("'", 39),
        ('"', 34), ("?", 63)]


def h_esc(i: int) -> bool:
    """
    pre: 0 <= i < 12
    post: _
    """
    import codebasin.preprocessor as pp

    ch = val = None
    for k in range(12):
        if i == k:
            ch, val = _ESC[k]
    STATS["compared"] += 1
    if P.get("_twin"):
        return False
    text = "'" + chr(92) + ch + "' == " + str(val)
    try:
        with _real_numpy():
            got = _cbi_truth(text)
    except Exception as e:
        if P.get("_replay"):
            LAST.update(text=text, observed="exception " + repr(e))
        return False
    if P.get("_replay"):
        LAST.update(text=text, observed=got, expected=True)
    return got is True


def h_numesc(v: int, form: int) -> bool:
    """
    pre: P["range"][0] <= v < P["range"][1] and 0 <= form < 4
    post: _
    """
    val = fm = None
    for k in range(P["range"][0], P["range"][1]):
        if v == k:
            val = k
    for k in range(4):
        if form == k:
            fm = k
    STATS["compared"] += 1
    if P.get("_twin"):
        return False
    body = chr(92) + [("%o" % val), ("%03o" % val), ("x%x" % val), ("x%02X" % val)][fm]
    exp = ref_expr.charconst(body).v  # ISO C with gcc's signed plain char
    text = "'%s' == %s" % (body, "(%d)" % exp) + " && '" + body + "' + 1 == " + "(%d)" % (exp + 1)
    try:
        with _real_numpy():
            got = _cbi_truth(text)
    except Exception as e:
        if P.get("_replay"):
            LAST.update(text=text, observed="exception " + repr(e))
        return False
    if P.get("_replay"):
        LAST.update(text=text, observed=got, expected=True)
    return got is True


DEF_EXPRS = [
    "defined A", "defined(A)", "defined ( B )", "!defined A && defined(B)", "defined A || defined B", "A", "A == 0", "B + 1 == 2",
    "A > B", "defined(A) + defined(B) == 2", "true", "false || A", "UNKNOWN", "!UNKNOWN", "(A) && !defined(UNKNOWN)",
    "defined A == A", "A ? defined B : B", "-A < 0", "A - B", "defined(A) ? A : B",
]
_DEF_CLASSES = [None, "", "=0", "=1", "=2", "=-1"]  # undefined, -DX, -DX=0, ...
_TOKCACHE = {}


def _def_tokens(i):
    import codebasin.preprocessor as pp

    if i not in _TOKCACHE:
        _TOKCACHE[i] = pp.Lexer(DEF_EXPRS[i]).tokenize()
    return _TOKCACHE[i]


def prepare(params):
    if params.get("family") == "def":
        for i in range(len(DEF_EXPRS)):
            _def_tokens(i)
        import codebasin.preprocessor as pp

        for cl in _DEF_CLASSES[1:]:
            pp.macro_from_definition_string("A" + cl)


def _def_ref(i, ca, cb):
    """reference: substitute -D values, `defined` by class, leftovers are 0"""
    vals = {"A": ca, "B": cb}
    toks = []
    raw = ref_expr_tokens(DEF_EXPRS[i])
    j = 0
    while j < len(raw):
        t = raw[j]
        if t == "defined":
            k = j + 1
            if raw[k] == "(":
                name = raw[k + 1]
                j = k + 3
            else:
                name = raw[k]
                j = k + 1
            toks.append(ref_expr.CVal(False, 1 if vals.get(name) is not None else 0))
            continue
        if isinstance(t, str) and t in vals and vals[t] is not None:
            cl = vals[t]
            toks.append(ref_expr.CVal(False, 1 if cl == "" else int(cl[1:])))
        else:
            toks.append(t)
        j += 1
    return ref_expr.evaluate(toks)


def ref_expr_tokens(text):
    return ref_expr.tokenize(text)


def h_def(ca: int, cb: int) -> bool:
    """
    pre: 0 <= ca < 6 and 0 <= cb < 6
    post: _
    """
    import codebasin.preprocessor as pp
    from codebasin.platform import Platform

    i = P["expr"]
    cls_a = cls_b = None
    for k in range(6):  # explicit chains: a symbolic subscript would not fork
        if ca == k:
            cls_a = _DEF_CLASSES[k]
        if cb == k:
            cls_b = _DEF_CLASSES[k]
    exp = _def_ref(i, cls_a, cls_b)
    if exp.ok is not True:
        return True
    STATS["compared"] += 1
    if P.get("_twin"):
        return False
    plat = Platform("p", "/")
    for name, cl in (("A", cls_a), ("B", cls_b)):
        if cl is not None:
            m = pp.macro_from_definition_string(name + cl)
            plat.define(m.name, m)
    node = pp.IfNode(list(_def_tokens(i)), list(_def_tokens(i)))
    try:
        got = bool(node.evaluate_for_platform(platform=plat, filename="/x.c", state=None))
    except Exception as e:
        if P.get("_replay"):
            LAST.update(expr=DEF_EXPRS[i], A=cls_a, B=cls_b, observed="exception " + repr(e))
        return False
    if P.get("_replay"):
        LAST.update(expr=DEF_EXPRS[i], A=cls_a, B=cls_b, expected=exp.v != 0, observed=got)
    return got == (exp.v != 0)


def _lit_obligations(tier, regions):
    obs = []
    mx = 3 if tier == "quick" else 5
    combos = []
    few = ["", "u", "ULL", "lu", "LLu"]
    for suf in SUFFIXES:
        combos.append(("", suf, "", 1, 2))
    for pre in ["", "0", "0b", "0B"]:
        for suf in few:
            combos.append((pre, suf, "", 1, mx))
    # CrossHair enumerates hexadecimal digits one by one (22 paths per character): short tails only
    for pre in ["0x", "0X"]:
        for suf in ["", "u", "LLu"]:
            combos.append((pre, suf, "", 1, 1))
    combos.append(("0x", "", "", 2, 2))
    if tier == "thorough":
        for pre in ["0", "0x", "0b"]:
            for suf in SUFFIXES:
                combos.append((pre, suf, "", 1, 1 if pre == "0x" else 3))
        for suf in few:
            combos.append(("0x", suf, "", 2, 2))
            combos.append(("0X", suf, "", 2, 2))
    # boundary stems: the value crosses 2^63 / 2^64 within the symbolic tail
    for suf in ["", "u", "ll", "ull"]:
        combos.append(("", suf, "92233720368547758", 2, 2))
        if "u" in suf:
            combos.append(("", suf, "184467440737095516", 2, 2))
        for stem in ["7FFFFFFFFFFFFFF", "FFFFFFFFFFFFFFF", "800000000000000"]:
            combos.append(("0x", suf, stem, 1, 1))
        combos.append(("0", suf, "7777777777777777777", 2, 2))
        combos.append(("0", suf, "17777777777777777777", 2, 2))
        combos.append(("0b", suf, "1" * 62, 2, 2))
    seen = set()
    all_big = {"800000000000000", "FFFFFFFFFFFFFFF", "17777777777777777777", "1" * 62}
    for pre, suf, stem, mn, mxl in combos:
        key = (pre, suf, stem, mn, mxl)
        if key in seen:
            continue
        if "C02-big-unsuffixed-literal" in regions and stem in all_big and "u" not in suf.lower():
            continue  # every value of this obligation lies in the open known finding's region (see witness/)
        seen.add(key)
        params = dict(family="lit", prefix=pre, suffix=suf, stem=stem, minlen=mn, maxlen=mxl, regions=regions)
        obs.append(Ob(id="lit/%s|%s|%s|%d-%d" % (pre or "dec", stem[:6] or "-", suf or "-", mn, mxl), kind="ch",
                      module=__name__, func="h_lit", params=params,
                      # (two symbolic hex digits are enumerated by int(s, 16): 22^2 paths - give them room on a loaded machine)
                      timeout=90 if tier == "quick" else (900 if pre.lower() == "0x" and mxl >= 2 else 300), group="lit"))
    for fid in regions:
        if fid == "C02-big-unsuffixed-literal":
            params = dict(family="lit", prefix="0x", suffix="", stem="FFFFFFFFFFFFFFF", minlen=1, maxlen=1, regions=[],
                          witness=fid)
            obs.append(Ob(id="witness/" + fid, kind="ch", module=__name__, func="h_lit", params=params, timeout=90,
                          expect="witness:" + fid, group="witness"))
    obs.append(Ob(id="lit/char", kind="ch", module=__name__, func="h_char", params=dict(family="char"),
                  timeout=120, group="lit"))
    # through the real Lexer the character is enumerated by CrossHair: split the printable range over workers
    step = 8 if tier == "quick" else 4
    for lo in range(32, 127, step):
        obs.append(Ob(id="lit/char-lexer/%d" % lo, kind="ch", module=__name__, func="h_char",
                      params=dict(family="char", lexer=True, range=[lo, min(127, lo + step)]), timeout=120, group="lit"))
    if "C02-char-escapes" in regions:
        obs.append(Ob(id="witness/C02-char-escapes", kind="ch", module=__name__, func="h_esc", params=dict(family="esc"),
                      timeout=60, expect="witness:C02-char-escapes", group="witness"))
    else:
        obs.append(Ob(id="lit/char-escapes", kind="ch", module=__name__, func="h_esc", params=dict(family="esc"),
                      timeout=60, group="lit"))
        # octal and hexadecimal escapes: every value 0..255 in four spellings
        for lo in range(0, 256, 32):
            obs.append(Ob(id="lit/char-numeric-escapes/%d" % lo, kind="ch", module=__name__, func="h_numesc",
                          params=dict(family="esc", range=[lo, lo + 32]), timeout=120, group="lit"))
    for i in range(len(DEF_EXPRS)):
        obs.append(Ob(id="def/%02d" % i, kind="ch", module=__name__, func="h_def", params=dict(family="def", expr=i),
                      timeout=120, group="def"))
    return obs


# --------------------------------------------------------------------------


def obligations(tier, known):
    tmo = 20000 if tier == "quick" else 120000
    obs = [Ob(id="model/numpy-grid", kind="fn", module=__name__, func="validate_numpy", params={}, twin=False,
              group="model", timeout=300)]
    regions = sorted(known)
    for op in BINOPS:
        for k1 in KINDS:
            for k2 in KINDS:
                obs.append(Ob(id="ops/bin/%s/%s,%s" % (op, k1, k2), kind="fn", module=__name__, func="check_op",
                              params=dict(op=op, kinds=[k1, k2], arity=2, timeout_ms=tmo, regions=regions),
                              twin=False, group="ops", timeout=tmo / 1000 * 4))
    for op in UNOPS:
        for k1 in KINDS:
            obs.append(Ob(id="ops/un/%s/%s" % (op, k1), kind="fn", module=__name__, func="check_op",
                          params=dict(op=op, kinds=[k1], arity=1, timeout_ms=tmo, regions=regions), twin=False,
                          group="ops", timeout=tmo / 1000 * 4))
    for sid, items in skeletons(tier):
        n = sum(1 for k, _ in items if k == "val")
        kindsets = [["i64"] * n]
        if tier == "thorough" or sid.startswith("tern/"):
            for i in range(n):
                ks = ["i64"] * n
                ks[i] = "u64"
                kindsets.append(ks)
        for ks in kindsets:
            obs.append(Ob(id="parse/%s/%s" % (sid, "".join(k[0] for k in ks)), kind="fn", module=__name__,
                          func="check_parse", params=dict(items=items, kinds=ks, timeout_ms=tmo, regions=regions),
                          twin=False, group="parse", timeout=tmo / 1000 * 6))
    Vn = lambda i: ("val", "v%d" % i)
    Q, C = ("op", "?"), ("op", ":")
    for d in ("/", "%"):
        guards = [("and", [Vn(0), ("op", "&&"), Vn(1), ("op", d), Vn(2)], ["v2"]),
                  ("or", [Vn(0), ("op", "||"), Vn(1), ("op", d), Vn(2)], ["v2"]),
                  ("and-paren", [Vn(0), ("op", "&&"), ("punc", "("), Vn(1), ("op", d), Vn(2), ("op", "+"), Vn(3), ("punc", ")")], ["v2"]),
                  ("tern-else", [Vn(0), Q, Vn(1), C, Vn(2), ("op", d), Vn(3)], ["v3"]),
                  ("tern-then", [Vn(0), Q, Vn(1), ("op", d), Vn(2), C, Vn(3)], ["v2"]),
                  ("left-and", [Vn(0), ("op", d), Vn(1), ("op", "&&"), Vn(2)], ["v1"])]
        for gid, items, zero in guards:
            n = sum(1 for k, _ in items if k == "val")
            kindsets = [["i64"] * n, ["u64"] * n] if tier == "quick" else [list(ks) for ks in it.product(KINDS, repeat=n)]
            for ks in kindsets:
                obs.append(Ob(id="guard/%s%s/%s" % (gid, {"/": "-div", "%": "-rem"}[d], "".join(k[0] for k in ks)), kind="fn",
                              module=__name__, func="check_parse", params=dict(items=items, kinds=ks, timeout_ms=tmo, regions=regions, zero=zero),
                              twin=False, group="guard", timeout=tmo / 1000 * 6))
    obs += _lit_obligations(tier, regions)
    return obs


def replay(obd, cex):
    """end-to-end: the expression text through the real Lexer+ExpressionEvaluator (+real NumPy) vs ISO C; gcc -E
    is consulted as a second opinion on the reference when it accepts the text without diagnostics"""
    from vp.gccoracle import gcc_if

    if obd["kind"] == "ch":
        return _replay_ch(obd, cex)
    text = cex.get("observer") or cex["text"]
    detail = dict(text=text)
    try:
        exp = ref_expr.truth_of_text(text)
    except (ref_expr.Undefined, ref_expr.Malformed) as e:
        return dict(reproduced=False, detail="reference rejects %r: %r" % (text, e))
    g = gcc_if(text)
    detail.update(expected_iso_c=exp, gcc=g)
    if g is not None and g != exp:
        return dict(reproduced=False, detail=dict(detail, note="gcc disagrees with the reference: harness error"))
    try:
        got = _cbi_truth(text)
    except Exception as e:
        detail.update(observed="exception " + repr(e)[:200])
        return dict(reproduced=True, detail=detail)
    detail.update(observed=got)
    return dict(reproduced=(got != exp), detail=detail)


CLAIM = ("Inductive operator step: for every C operator and every pair of 64-bit operands (all values, both signedness kinds) the "
         "real operator-application code returns a scalar equal in value and signedness to ISO C whenever C defines the result - "
         "decided by z3 over bit-vectors; plus bounded checks of the real parser's grouping and of literal conversion.")
LEVEL_NOTE = ("Trusted: the NumPy scalar model vp/npshim.py (validated pointwise every run), z3/cvc5, the reference semantics "
              "vp/refs/ref_expr.py (cross-checked against gcc -E at replay). Bounded: parser skeleton size, literal length.")


def _replay_ch(obd, cex):
    """lit/def counterexamples: re-run the harness natively, then confirm through the public path (real Lexer on the
    spelled text, real NumPy) and gcc"""
    import sys

    from vp.gccoracle import gcc_if

    mod = sys.modules[__name__]
    mod.P = dict(obd["params"], _twin=False, _replay=True)
    mod.LAST = {}
    args, kw = cex
    try:
        ok = getattr(mod, obd["func"])(*args, **kw)
    except Exception as e:
        ok = False
        LAST.update(exception=repr(e))
    detail = dict(LAST)
    if ok is not False:
        return dict(reproduced=False, detail=detail)
    fam = obd["params"].get("family")
    if fam == "lit":
        text = detail.get("text")
        kind, v = detail["expected"]
        probe = "%s == %d%s" % (text, v, "u" if kind == "u64" else "")
        detail["public_probe"] = probe
        detail["gcc"] = gcc_if(probe)
        try:
            got = _cbi_truth(probe)
            # signedness probe: -X < 0 is true exactly for signed X > 0
            sp = "-%s < 0" % text
            got2 = _cbi_truth(sp) if v > 0 else None
            exp2 = (kind == "i64") if v > 0 else None
            detail.update(public_observed=got, sign_probe=sp, sign_observed=got2, sign_expected=exp2)
            return dict(reproduced=(got is not True) or (got2 != exp2), detail=detail)
        except Exception as e:
            detail.update(public_observed="exception " + repr(e)[:200])
            return dict(reproduced=True, detail=detail)
    return dict(reproduced=True, detail=detail)
