"""C01 - conditional inclusion matches a real C preprocessor.

Layer A (skel/): every well-formed directive skeleton up to a size bound is built with the real node classes and
the real SourceTree.insert, walked by the real ParserState.associate; the outcome of each #if/#elif evaluation is a
symbolic bool served by a stub of IfNode.evaluate_for_platform.  Postcondition: attribution of every node and the
exact list of conditions consulted equal an independent stack-machine reference (ISO C 6.10.1).

Layer B (text/): programs rendered from skeletons with real directive spellings, #define/#undef lines and a symbolic
-D class per macro run through the real FileParser + finder.find on a MemFS; oracle vp.refs.ref_cpp.
"""

from __future__ import annotations

from collections import Counter

from vp import memfs, scen
from vp.driver import Ob
from vp.refs import ref_cpp

PROPERTY = "C01"
LEVEL = "other"
ENGINE = "crosshair+z3"
TECHNIQUE = "CrossHair symbolic execution of the real tree builder/visitor with symbolic condition outcomes and -D classes"
FUNCTIONS = [
    "codebasin/preprocessor.py:SourceTree.insert", "codebasin/preprocessor.py:SourceTree.walk_to_tree_insertion_point",
    "codebasin/preprocessor.py:Node.visit", "codebasin/finder.py:ParserState.associate",
    "codebasin/finder.py:find", "codebasin/file_parser.py:FileParser.parse_file",
    "codebasin/preprocessor.py:DirectiveParser.parse", "codebasin/preprocessor.py:DefineNode/UndefNode/IfNode.evaluate_for_platform",
    "codebasin/preprocessor.py:macro_from_definition_string", "codebasin/platform.py:Platform.define/undefine/is_defined",
]
STUBS = ["skel/: IfNode.evaluate_for_platform returns the next symbolic outcome and records that it was consulted",
         "text/: vp.memfs mounted (file_parser.open, os façade, finder.tqdm identity, module loggers -> recorder)"]
ASSUMPTIONS = [
    "programs that vp.refs.ref_cpp marks as drawing a gcc diagnostic (incompatible redefinition, #if on an empty expansion, "
    "undefined arithmetic) are outside the property",
    "one physical line per logical line in text/ programs (comments and continuations are C05's subject)",
]
BOUNDS = {
    "quick": "skel/: all well-formed skeletons with <= 7 nodes, nesting <= 3, all condition outcomes (symbolic); "
             "text/: all skeletons with <= 5 nodes x 2 renderings x 5 -D classes for A x 3 for B",
    "thorough": "skel/: <= 8 nodes; text/: <= 6 nodes x 6 renderings x 5x5 -D classes",
}
EXPLANATION = (
    "CrossHair executes the real SourceTree.insert/ParserState.associate (layer A) and the real FileParser+finder.find on an "
    "in-memory file system (layer B). Condition outcomes and -D classes are symbolic, so each obligation is decided for every "
    "assignment by exhausting the decision tree ('Confirmed over all paths'); the oracle is an independent ISO C 6.10.1 stack "
    "machine (layer A) / the reference preprocessor ref_cpp (layer B). A reachability twin guards against vacuity."
)

P = {}
STATS = Counter()
LAST = {}


# --------------------------------------------------------------------------
# skeletons


def skeletons(max_nodes, max_depth=3):
    """all well-formed sequences over C I E L N (code, #if, #elif, #else, #endif); adjacent code nodes merged"""
    out = []

    def rec(seq, stack):
        # stack: list of 'open' frames: 0 = no else yet, 1 = else seen
        if seq and not stack:
            out.append("".join(seq))
        if len(seq) == max_nodes:
            return
        # code (never twice in a row)
        if not seq or seq[-1] != "C":
            rec(seq + ["C"], stack)
        if len(stack) < max_depth:
            rec(seq + ["I"], stack + [0])
        if stack:
            if stack[-1] == 0:
                rec(seq + ["E"], stack)
                rec(seq + ["L"], stack[:-1] + [1])
            rec(seq + ["N"], stack[:-1])

    rec([], [])
    # a skeleton needs at least one conditional to be interesting
    return [s for s in out if "I" in s]


def ref_skeleton(sk, outs):
    """independent reference: (reached flag per node, list of consulted condition indices)"""
    stack = []  # [taken, active, parent_active]
    reached = []
    consulted = []
    ci = 0
    for k in sk:
        active = True
        for fr in stack:
            if not fr[1]:
                active = False
        if k == "C":
            reached.append(active)
        elif k == "I":
            if active:
                consulted.append(ci)
                c = outs[ci]
                stack.append([c, c, True])
            else:
                stack.append([True, False, False])
            reached.append(active)
            ci += 1
        elif k == "E":
            fr = stack[-1]
            outer = True
            for f in stack[:-1]:
                if not f[1]:
                    outer = False
            r = fr[2] and outer
            reached.append(r)
            if r:
                if fr[0]:
                    fr[1] = False
                else:
                    consulted.append(ci)
                    c = outs[ci]
                    fr[0] = c
                    fr[1] = c
            ci += 1
        elif k == "L":
            fr = stack[-1]
            outer = True
            for f in stack[:-1]:
                if not f[1]:
                    outer = False
            r = fr[2] and outer
            reached.append(r)
            if r:
                fr[1] = not fr[0]
                fr[0] = True
        elif k == "N":
            fr = stack.pop()
            outer = True
            for f in stack:
                if not f[1]:
                    outer = False
            reached.append(fr[2] and outer)
    return reached, consulted


def h_skel(o0: bool, o1: bool, o2: bool, o3: bool, o4: bool, o5: bool, o6: bool) -> bool:
    """
    post: _
    """
    import codebasin.finder as finder
    import codebasin.preprocessor as pp
    from codebasin.platform import Platform

    sk = P["sk"]
    outs = [o0, o1, o2, o3, o4, o5, o6]
    exp_reached, exp_consulted = ref_skeleton(sk, outs)
    STATS["compared"] += 1
    if P.get("_twin"):
        return False
    consulted = []

    def stub(self, **kwargs):
        consulted.append(self.cond_index)
        return outs[self.cond_index]

    tree = pp.SourceTree("/r/f.c")
    nodes = []
    ci = 0
    for i, k in enumerate(sk):
        if k == "C":
            n = pp.CodeNode(i + 1, i + 1, 1, lines=[i + 1])
        elif k == "I":
            n = pp.IfNode([], [])
            n.cond_index = ci
            ci += 1
        elif k == "E":
            n = pp.ElIfNode([], [])
            n.cond_index = ci
            ci += 1
        elif k == "L":
            n = pp.ElseNode([])
        else:
            n = pp.EndIfNode([])
        if k != "C":
            n.start_line = n.end_line = i + 1
            n.num_lines = 1
            n.lines = [i + 1]
        tree.insert(n)
        nodes.append(n)
    state = finder.ParserState(True)
    fn = "/r/f.c"
    state.trees[fn] = tree
    import collections

    state.maps[fn] = collections.defaultdict(set)
    state.langs[fn] = "c"
    state._path_cache[fn] = fn
    old = pp.IfNode.evaluate_for_platform
    pp.IfNode.evaluate_for_platform = stub
    try:
        state.associate(fn, Platform("p", "/r"))
    except Exception as e:
        if P.get("_replay"):
            LAST.update(skeleton=sk, outcomes=[bool(x) for x in outs], exception=repr(e))
        return False
    finally:
        pp.IfNode.evaluate_for_platform = old
    got = [("p" in state.maps[fn][n]) for n in nodes]
    ok = got == [bool(x) for x in exp_reached] and consulted == exp_consulted
    if P.get("_replay"):
        LAST.update(skeleton=sk, outcomes=[bool(x) for x in outs], attributed=got, expected=[bool(x) for x in exp_reached],
                    consulted=consulted, expected_consulted=exp_consulted)
    return ok


# --------------------------------------------------------------------------
# layer B: rendered programs

# "#if A + 0", "#elif A + 0 == 0": conditions that stay well-formed when A is defined with an EMPTY value (-DA=): the
# macro vanishes, `+ 0` remains (placed where the quick tier's renderings r = 0, 1 reach them)
COND = ["#if A + 0", "#ifdef A", "#ifndef A", "#if A", "#if defined(A) && !defined(B)", "#if defined A || B", "#if A == 2", "#ifdef B",
        "#if !A", "#if B > A", "#if defined(B)"]
ELIF = ["#elif B", "#elif A + 0 == 0", "#elif defined B", "#elif A == 0", "#elif defined(A)", "#elif !defined(A) && !defined(B)", "#elif A"]
DEFS = ["#define A 1", "#define B 1", "#undef A", "#define A 0", "#undef B", "#define C A"]
CLASSES = [None, "A", "A=", "A=0", "A=2"]
BCLASSES = [None, "B", "B=0", "B=", "B=3"]


def render(sk, r):
    """skeleton + rendering index -> list of source lines ('@' = code line)"""
    lines = []
    ci = 0
    for idx, k in enumerate(sk):
        if k == "C":
            if (idx + r) % 3 == 0:
                lines.append(DEFS[(idx + 2 * r) % len(DEFS)])
            elif (idx + r) % 5 == 1:
                lines.append(DEFS[(idx + r + 3) % len(DEFS)])
                lines.append("@")
            else:
                lines.append("@")
        elif k == "I":
            lines.append(COND[(ci * 3 + r) % len(COND)])
            ci += 1
        elif k == "E":
            lines.append(ELIF[(ci + r) % len(ELIF)])
            ci += 1
        elif k == "L":
            lines.append("#else")
        else:
            lines.append("#endif")
    return lines


_FS = {}


def _fs():
    key = (P["sk"], P["r"])
    if key not in _FS:
        _FS.clear()
        _FS[key] = scen.build_fs({"/r/f.c": render(P["sk"], P["r"])})
    return _FS[key]


def prepare(params):
    if params.get("family") == "text":
        import codebasin.config as config

        # warm process-wide caches natively so that every path sees the same state
        import codebasin.preprocessor as pp

        pp.macro_from_definition_string("A=1")
        global P
        P = dict(params)
        _fs()


def h_text(ca: int, cb: int) -> bool:
    """
    pre: 0 <= ca < P["na"] and 0 <= cb < P["nb"]
    post: _
    """
    defines = []
    for k in range(5):
        if ca == k and CLASSES[k] is not None:
            defines.append(CLASSES[k])
    for k in range(5):
        if cb == k and BCLASSES[k] is not None:
            defines.append(BCLASSES[k])
    fs = _fs()
    conf = {"p": [scen.entry("/r/f.c", defines)]}
    try:
        exp, _tus = ref_cpp.run_platforms(fs, conf)
    except ref_cpp.Diagnostic:
        return True
    STATS["compared"] += 1
    if P.get("_twin"):
        return False
    try:
        state, rec = scen.run_cbi(fs, conf, ["/r/f.c"])
    except Exception as e:
        if P.get("_replay"):
            LAST.update(program=fs.files["/r/f.c"], defines=defines, exception=repr(e))
        return False
    diff = scen.compare(state, exp, ["p"])
    if diff is None:
        # every line of the file is non-blank, so every line must be counted exactly once
        n = len(fs.files["/r/f.c"].split("\n")) - 1
        if scen.counted_lines(state) != {("/r/f.c", i) for i in range(1, n + 1)}:
            diff = dict(kind="counted lines", got=sorted(scen.counted_lines(state)))
    if P.get("_replay"):
        LAST.update(program=fs.files["/r/f.c"], defines=defines, diff=diff)
    return diff is None


def replay(obd, cex):
    import sys

    mod = sys.modules[__name__]
    mod.P = dict(obd["params"], _twin=False, _replay=True)
    mod.LAST = {}
    if hasattr(mod, "prepare"):
        prepare(mod.P)
        mod.P = dict(obd["params"], _twin=False, _replay=True)
    args, kw = cex
    try:
        ok = getattr(mod, obd["func"])(*args, **kw)
    except Exception as e:
        ok = False
        LAST.update(exception=repr(e))
    detail = dict(LAST)
    if ok is not False:
        return dict(reproduced=False, detail=detail)
    if obd["params"].get("family") == "text":
        # public path: real files on disk, unpatched finder.find, and gcc -E on the same program
        fs = _fs()
        defines = detail.get("defines", [])
        conf = {"p": [scen.entry("/r/f.c", defines)]}
        try:
            exp, _ = ref_cpp.run_platforms(fs, conf)
            got, warnings, gcc = scen.disk_replay(fs, conf, ["/r/f.c"])
            detail["disk_attribution"] = sorted(got.get("p", set()))
            detail["expected"] = sorted(exp["p"])
            g = gcc.get("p")
            if isinstance(g, set):
                detail["gcc_agrees_with_reference"] = (g == scen.code_tokens(fs, exp["p"]))
                if not detail["gcc_agrees_with_reference"]:
                    return dict(reproduced=False, detail=dict(detail, note="gcc disagrees with ref_cpp: harness error"))
            else:
                detail["gcc"] = g
            return dict(reproduced=got.get("p", set()) != exp["p"], detail=detail)
        except Exception as e:
            detail["disk_exception"] = repr(e)
            return dict(reproduced=True, detail=detail)
    return dict(reproduced=True, detail=detail)


def _has_clean_run(sk, r, na, nb):
    fs = scen.build_fs({"/r/f.c": render(sk, r)})
    for a in range(na):
        for b in range(nb):
            d = [x for x in (CLASSES[a], BCLASSES[b]) if x is not None]
            try:
                ref_cpp.run_platforms(fs, {"p": [scen.entry("/r/f.c", d)]})
                return True
            except ref_cpp.Diagnostic:
                pass
    return False


def obligations(tier, known):
    obs = []
    nmax = 7 if tier == "quick" else 8
    for sk in skeletons(nmax):
        obs.append(Ob(id="skel/" + sk, kind="ch", module=__name__, func="h_skel", params=dict(family="skel", sk=sk),
                      timeout=120, group="skel"))
    tmax, R, na, nb = (5, 2, 5, 3) if tier == "quick" else (6, 6, 5, 5)
    for sk in skeletons(tmax):
        for r in range(R):
            if not _has_clean_run(sk, r, na, nb):
                continue  # gcc diagnoses this rendering under every -D class: outside the property
            obs.append(Ob(id="text/%s/r%d" % (sk, r), kind="ch", module=__name__, func="h_text",
                          params=dict(family="text", sk=sk, r=r, na=na, nb=nb), timeout=240, group="text"))
    return obs


CLAIM = ("Within the stated bounds every condition outcome / -D assignment is covered by CrossHair's exhausted decision tree: the "
         "real tree construction and visitor attribute exactly the lines ISO C 6.10.1 reaches and evaluate exactly the conditions "
         "a preprocessor evaluates; rendered programs agree with the reference preprocessor line by line.")
LEVEL_NOTE = ("Trusted: CrossHair/z3, the reference stack machine and vp/refs/ref_cpp.py (confirmed against gcc -E on every replay), "
              "vp/memfs.py. Bounded: skeleton size <= 7/8 nodes (layer A), <= 5/6 nodes and a fixed spelling catalogue (layer B).")
