"""C11 - -D/-I/-isystem/-include are extracted from any command line, robustly.

The real config.ArgumentParser.parse_args (real argparse) is run on argument vectors assembled from slots.  Slot kinds
and forms are bounded symbolic indices; the *values* of detached options are symbolic strings (argparse never hashes a
detached value, so they stay symbolic); attached values are concrete representatives.  A catalogue of real compiler
flags CBI does not model is interleaved.
"""

from __future__ import annotations

import shlex
from collections import Counter

from vp import memfs
from vp.driver import Ob

PROPERTY = "C11"
LEVEL = "other"
ENGINE = "crosshair+z3"
TECHNIQUE = "CrossHair symbolic execution of the real argparse-based option extraction with symbolic option values and slot kinds"
FUNCTIONS = ["codebasin/config.py:ArgumentParser.parse_args", "codebasin/config.py:ArgumentParser.__init__",
             "codebasin/__init__.py:CompileCommand.arguments (shlex.split)", "argparse (stdlib) as used by parse_args"]
STUBS = ["config.log -> recorder", "config._compilers warmed natively before analysis"]
ASSUMPTIONS = [
    "detached option values: arbitrary strings of length 1..3 without NUL whose first character is not '-' (a value with a "
    "leading dash is read as an option by gcc's own driver too)",
    "an option CBI does not model may consume the following argument exactly when the real compiler's option does (catalogue "
    "entries carry their own value)",
]
BOUNDS = {
    "quick": "shape/: vectors of 2 slots (kind in {-D,-I,-isystem,-include,unknown flag,file} x attached/detached, concrete "
             "representative values incl. '=', spaces, quotes, inner dashes) + one of 55 catalogue flags at every position; "
             "value/: one detached option value as an arbitrary string |v| <= 3 next to each of 9 hazardous flags; "
             "override/: every sequence of 3 options from 10 -D/-U spellings over the macros A, B, AB, an unmodelled flag at every position",
    "thorough": "shape/: 3 slots; value/: all 46 flags, |v| <= 4; override/: sequences of 4",
}
EXPLANATION = (
    "For every slot-kind/form assignment CrossHair explores the real parse_args; detached option values are symbolic strings, so "
    "one path covers all values. Postcondition: no exception, defines / include_paths / include_files equal the projection of "
    "the slots in command-line order, unknown flags change nothing, and the shell-quoted `command` form splits back to the same vector."
)

P = {}
STATS = Counter()
LAST = {}

CATALOGUE = [
    ["-g3"], ["-ggdb"], ["-gdwarf-4"], ["-gsplit-dwarf"], ["-g"], ["-O2"], ["-Ofast"], ["-O"], ["-Wall"], ["-W"], ["-w"],
    ["-std=c++17"], ["-MF", "x.d"], ["-MD"], ["-MT", "t"], ["-MQ", "t"], ["-MP"], ["-fPIC"], ["-ccbin", "g++"], ["-x", "c++"],
    ["-march=native"], ["-pthread"], ["-c"], ["-o", "a.o"], ["@rsp"], ["-Xcompiler", "-fopenmp"], ["-undef"], ["--sysroot=/x"],
    ["-cxx-isystem", "d"], ["-coverage"], ["-fopenmp"], ["-Wl,-rpath,/x"], ["-pipe"], ["-m64"], ["-S"], ["-E"], ["-v"],
    ["-nostdinc"], ["-iquote", "q"], ["-idirafter", "d"], ["-L/x"], ["-lm"], ["-shared"], ["-fno-exceptions"], ["-pedantic"],
    ["-ffast-math"],
    # unmodelled options whose value is ATTACHED (one argument): nothing after them may be swallowed
    ["-xc++"], ["-MFx.d"], ["-MTx.o"], ["-MQt"], ["-xHost"], ["-G"], ["-Wp,-MD,x.d"], ["-Wno-unused"], ["-std=gnu11"],
]
# (the fourth value of every list contains the spelling of ANOTHER modelled flag: nothing may be searched for inside a value)
ATTACHED = {0: ["A=1", "X=a=b-c", 'S="q r"', "P=/lib/x-includes"], 1: ["/p/q-r", "inc dir", "../i", "/opt/my-includes"],
            2: ["/opt/my-lib/sys", "s y", "./s", "/sys-isystems/v1"], 3: ["cfg-host.h", "pre fix.h", "../g.h", "pre-includes.h"]}
DETACHED = {0: ["B", "Y=c=d", "T='u v'", "Q=a-isystemb"], 1: ["/a/b", "my inc", "i-n-c", "third-party-includes/v2"],
            2: ["/usr/sys", "s-y s", "sys=1", "/x-includey"], 3: ["g.h", "a b.h", "pre-fix.h", "a-Dinc-Ix.h"]}
FLAG = {0: "-D", 1: "-I", 2: "-isystem", 3: "-include"}
COMPILER = "vp-unknown-cc"
KNOWN_CC = {"gcc": ([], ["default"]), "nvcc": (["__NVCC__", "__CUDACC__"], ["default", "sm_70"]),
            "icx": ([], ["default", "sycl-spir64"])}


def prepare(params):
    import codebasin.config as config

    config._load_compilers()


def _val_ok(v):
    if not (1 <= len(v) <= 3):
        return False
    if v[0] == "-":
        return False
    for c in v:
        if ord(c) == 0:
            return False
    return True


def _pre(k1, k2, k3, v1, v2, v3, pos):
    n = P["slots"]
    ks = [k1, k2, k3]
    for i in range(3):
        if not (0 <= ks[i] < 6):
            return False
        if i >= n and ks[i] != 5:
            return False
    if not (0 <= pos <= n):
        return False
    fx = P.get("fix")
    if fx is not None and k1 != fx:
        return False
    return v1 == "" and v2 == "" and v3 == ""  # values are concrete representatives in shape/ (see value/ for symbolic ones)


def h_args(k1: int, a1: bool, k2: int, a2: bool, k3: int, a3: bool, v1: str, v2: str, v3: str, pos: int) -> bool:
    """
    pre: _pre(k1, k2, k3, v1, v2, v3, pos)
    post: _
    """
    import codebasin.config as config

    ks, at, vs = [k1, k2, k3], [a1, a2, a3], [v1, v2, v3]
    argv = []
    exp = {0: [], 1: [], 2: [], 3: []}
    n = P["slots"]
    unknown = CATALOGUE[P["flag"]]
    for i in range(n):
        if pos == i:
            argv += unknown
        kind = None
        for k in range(6):
            if ks[i] == k:
                kind = k
        if kind == 5:
            argv.append("src%d.c" % i)
        elif kind == 4:
            j = (P["flag"] + 7 * (i + 1)) % len(CATALOGUE)
            while "-fopenmp" in CATALOGUE[j] and P.get("compiler", COMPILER) in KNOWN_CC:
                j = (j + 1) % len(CATALOGUE)  # -fopenmp (also as -Xcompiler -fopenmp) is modelled by these compilers: C12's subject
            argv += CATALOGUE[j]
        else:
            if at[i]:
                val = ATTACHED[kind][(i + P["flag"]) % 4]
                argv.append(FLAG[kind] + val)
            else:
                val = DETACHED[kind][(i + P["flag"]) % 4]
                argv += [FLAG[kind], val]
            exp[kind].append(val)
    if pos == n:
        argv += unknown
    STATS["compared"] += 1
    if P.get("_twin"):
        return False
    ok, cfgs, rec = _run_parse(argv, untraced=True)
    if not ok:
        return False
    cc = P.get("compiler", COMPILER)
    if cc in KNOWN_CC:
        # a modelled compiler: the default pass carries the command line's values (+ the compiler's implicit defines), the
        # compiler's default device passes must still be there (an unmodelled flag must not be read as an abbreviation
        # of one of the compiler's own options)
        imp, passes = KNOWN_CC[cc]
        byname = {c.pass_name: c for c in cfgs}
        ok = set(byname) == set(passes) and len(cfgs) == len(passes)
        if ok:
            d = byname["default"]
            ok = d.defines == exp[0] + imp and d.include_paths == exp[1] + exp[2] and d.include_files == exp[3]
        if P.get("_replay"):
            LAST.update(argv=argv, compiler=cc, expected=dict(passes=passes, defines=exp[0] + imp, include_paths=exp[1] + exp[2],
                                                             include_files=exp[3]),
                        observed=[(c.pass_name, c.defines, c.include_paths, c.include_files) for c in cfgs], warnings=rec.warnings())
        return ok
    # -I directories in command-line order, then -isystem directories in command-line order (the compiler's search order)
    ok = len(cfgs) == 1 and cfgs[0].defines == exp[0] and cfgs[0].include_paths == exp[1] + exp[2] and cfgs[0].include_files == exp[3]
    if P.get("_replay"):
        LAST.update(argv=argv, expected=dict(defines=exp[0], include_paths=exp[1] + exp[2], include_files=exp[3]),
                    observed=[(c.pass_name, c.defines, c.include_paths, c.include_files) for c in cfgs], warnings=rec.warnings())
    return ok


def _run_parse(argv, untraced):
    import contextlib

    import codebasin.config as config

    rec = memfs.Recorder()
    cm = contextlib.nullcontext()
    if untraced:
        try:
            from crosshair.tracers import NoTracing, is_tracing

            if is_tracing():
                cm = NoTracing()
        except Exception:
            pass
    old = config.log
    config.log = rec
    try:
        with cm:
            cfgs = config.ArgumentParser(P.get("compiler", COMPILER)).parse_args(list(argv))
    except BaseException as e:
        if not isinstance(e, (Exception, SystemExit)):
            raise  # CrossHair's own control-flow exceptions
        if P.get("_replay"):
            LAST.update(argv=list(argv), exception=repr(e))
        return False, None, rec
    finally:
        config.log = old
    return True, cfgs, rec


def _pre_val(v, pos):
    if P.get("attached") and v[:1] == "=":
        return False  # -D=... is rejected by gcc, -I=dir is gcc's sysroot-relative spelling: outside the property
    return _val_ok(v) and len(v) <= P["maxlen"] and 0 <= pos < 3


def h_value(v: str, pos: int) -> bool:
    """
    pre: _pre_val(v, pos)
    post: _
    """
    # one detached option value is an arbitrary (symbolic) string; the unmodelled flag sits before, between or after
    kind = P["kind"]
    unknown = CATALOGUE[P["flag"]]
    if P.get("attached"):
        core = [[FLAG[kind] + v], ["-DZ=1"], ["x.c"]]
    else:
        core = [[FLAG[kind], v], ["-DZ=1"], ["x.c"]]
    argv = []
    for i in range(3):
        if pos == i:
            argv += unknown
        argv += core[i]
    exp = {0: [], 1: [], 2: [], 3: []}
    exp[kind].append(v)
    exp[0].append("Z=1")
    if kind == 0:
        # the later -DZ=1 overrides an earlier definition of the same macro (name = text before the first '=' or '(')
        nm = v
        for stop in ("=", "("):
            k = nm.find(stop)
            if k >= 0:
                nm = nm[:k]
        if nm == "Z":
            exp[0] = ["Z=1"]
    STATS["compared"] += 1
    if P.get("_twin"):
        return False
    ok, cfgs, rec = _run_parse(argv, untraced=False)
    if not ok:
        return False
    # -I directories in command-line order, then -isystem directories in command-line order (the compiler's search order)
    ok = len(cfgs) == 1 and cfgs[0].defines == exp[0] and cfgs[0].include_paths == exp[1] + exp[2] and cfgs[0].include_files == exp[3]
    if P.get("_replay"):
        LAST.update(argv=argv, expected=dict(defines=exp[0], include_paths=exp[1] + exp[2], include_files=exp[3]),
                    observed=[(c.pass_name, c.defines, c.include_paths, c.include_files) for c in cfgs], warnings=rec.warnings())
    return ok


# ---- -D / -U in command-line order; the later option for a macro overrides the earlier one -------------------

OPS = [["-DA"], ["-DA=2"], ["-UA"], ["-DB=x"], ["-UB"], ["-D", "A=3"], ["-U", "A"], ["-DA(x)=x"], ["-UAB"], ["-DAB"]]


def _ops_reference(seq):
    """what a compiler's driver does: definitions and undefinitions applied one after the other"""
    macros = {}
    for op in seq:
        text = op[-1] if len(op) == 2 else op[0][2:]
        name = text.split("=")[0].split("(")[0]
        if op[0].startswith("-U"):
            macros.pop(name, None)
        else:
            macros[name] = text
    return macros


def h_override(o1: int, o2: int, o3: int, o4: int, pos: int) -> bool:
    """
    pre: o1 == P["first"] and 0 <= o2 < 10 and 0 <= o3 < 10 and 0 <= o4 < 10 and 0 <= pos <= P["n"] and (P["n"] == 4 or o4 == 0)
    post: _
    """
    idx = []
    for v in (o1, o2, o3, o4):
        for k in range(10):
            if v == k:
                idx.append(k)
    pp = None
    for k in range(5):
        if pos == k:
            pp = k
    seq = [OPS[k] for k in idx[: P["n"]]]
    argv = []
    for i, op in enumerate(seq):
        if i == pp:
            argv += CATALOGUE[P["flag"]]
        argv += op
    argv.append("x.c")
    STATS["compared"] += 1
    if P.get("_twin"):
        return False
    ok, cfgs, rec = _run_parse(argv, untraced=True)
    if not ok:
        return False
    want = _ops_reference(seq)
    got = {}
    dup = False
    for d in cfgs[0].defines:
        name = d.split("=")[0].split("(")[0]
        dup = dup or name in got
        got[name] = d
    ok = len(cfgs) == 1 and not dup and got == want
    if P.get("_replay"):
        LAST.update(argv=argv, expected_macros=want, observed=[(c.pass_name, c.defines) for c in cfgs], warnings=rec.warnings())
    return ok


def h_command(i: int, j: int) -> bool:
    """
    pre: 0 <= i < P["n"] and 0 <= j < 3
    post: _
    """
    # the `command` string form and the `arguments` array form are equivalent (concrete vectors; the index space is
    # exhausted by the decision tree, the code runs untraced per leaf)
    import codebasin

    a = b = None
    for k in range(P["n"]):
        if i == k:
            a = k
    for k in range(3):
        if j == k:
            b = k
    flag = CATALOGUE[a]
    argv = ["gcc", "-D" + ATTACHED[0][b], "-I", ATTACHED[1][b]] + flag + ["-isystem" if False else "-include", ATTACHED[3][b],
            "-D", 'Q="a b"', "x y.c"]
    STATS["compared"] += 1
    if P.get("_twin"):
        return False
    cmd = shlex.join(argv)
    c1 = codebasin.CompileCommand("x y.c", command=cmd)
    c2 = codebasin.CompileCommand("x y.c", arguments=argv)
    ok = c1.arguments == c2.arguments == argv
    if P.get("_replay"):
        LAST.update(command=cmd, split=c1.arguments, arguments=argv)
    return ok


def replay(obd, cex):
    import sys

    mod = sys.modules[__name__]
    mod.P = dict(obd["params"], _twin=False, _replay=True)
    mod.LAST = {}
    prepare(mod.P)
    args, kw = cex
    try:
        ok = getattr(mod, obd["func"])(*args, **kw)
    except Exception as e:
        ok = False
        LAST.update(exception=repr(e))
    detail = dict(LAST)
    if ok is False and obd["func"] == "h_args" and "argv" in detail:
        # public path: the same vector through config.load_database-style use (fresh parser, real logger)
        import codebasin.config as config

        try:
            cfgs = config.ArgumentParser("/usr/bin/" + obd["params"].get("compiler", COMPILER)).parse_args(list(detail["argv"]))
            detail["public_observed"] = [(c.defines, c.include_paths, c.include_files) for c in cfgs]
        except BaseException as e:
            detail["public_exception"] = repr(e)
    return dict(reproduced=(ok is False), detail=detail)


_ABORT = {"C11-g-c-prefix-abort": ["-g3", "-ggdb", "-gdwarf-4", "-gsplit-dwarf", "-ccbin", "-cxx-isystem", "-coverage"]}


HAZARD = ["-g3", "-ggdb", "-ccbin", "-coverage", "-O", "-MF", "-x", "-o", "-c", "@rsp", "-Xcompiler", "-iquote", "-cxx-isystem",
          "-Wl,-rpath,/x", "--sysroot=/x", "-g", "-G", "-xc++", "-MFx.d", "-MTx.o", "-MQt", "-xHost", "-Wp,-MD,x.d"]


def obligations(tier, known):
    obs = []
    slots = 2 if tier == "quick" else 3
    for f in range(len(CATALOGUE)):
        expect = "hold"
        for fid, flags in _ABORT.items():
            if fid in known and CATALOGUE[f][0] in flags:
                expect = "witness:" + fid
        fixes = [None] if slots == 2 else list(range(6))
        for fx in fixes:
            obs.append(Ob(id="shape/%s/%s" % (CATALOGUE[f][0], "all" if fx is None else "k%d" % fx), kind="ch", module=__name__,
                          func="h_args", params=dict(slots=slots, flag=f, fix=fx), timeout=300, group="shape", expect=expect))
    for cc in KNOWN_CC:
        for f in range(len(CATALOGUE)):
            if "-fopenmp" in CATALOGUE[f]:
                continue  # modelled by these compilers (C12's subject)
            if tier == "quick" and CATALOGUE[f][0] not in HAZARD:
                continue
            obs.append(Ob(id="shape-%s/%s" % (cc, CATALOGUE[f][0]), kind="ch", module=__name__, func="h_args",
                          params=dict(slots=2, flag=f, fix=None, compiler=cc), timeout=300, group="shape"))
    for f in range(len(CATALOGUE)):
        if tier == "quick" and CATALOGUE[f][0] not in HAZARD[:9]:
            continue
        for kind in range(4):
            obs.append(Ob(id="value/%s/%s" % (CATALOGUE[f][0], FLAG[kind]), kind="ch", module=__name__, func="h_value",
                          params=dict(flag=f, kind=kind, maxlen=3 if tier == "quick" else 4), timeout=300, group="value"))
    # attached values as arbitrary strings: -isystem/-include are split off by CBI's own string code (stays symbolic);
    # for -D/-I argparse looks the prefix up in a dict, CrossHair then enumerates - kept to |v| <= 2 there
    for kind in range(4):
        obs.append(Ob(id="value-attached/%s" % FLAG[kind], kind="ch", module=__name__, func="h_value",
                      params=dict(flag=8, kind=kind, maxlen=(3 if kind >= 2 else 2), attached=True), timeout=300, group="value"))
    for f in ([14] if tier == "quick" else [8, 14, 26, 46]):
        for first in range(len(OPS)):
            obs.append(Ob(id="override/%s/first%s" % (CATALOGUE[f][0], "".join(OPS[first])), kind="ch", module=__name__, func="h_override",
                          params=dict(flag=f, n=3 if tier == "quick" else 4, first=first), timeout=300, group="override"))
    obs.append(Ob(id="command/shlex", kind="ch", module=__name__, func="h_command", params=dict(n=len(CATALOGUE)), timeout=200,
                  group="command"))
    return obs


CLAIM = ("For every assignment of slot kinds and forms within the bound, for ALL detached option values (symbolic strings) and each "
         "of 55 unmodelled real compiler flags at every position, the real parse_args neither aborts nor loses/reorders/alters a "
         "-D/-I/-isystem/-include; every sequence of 3/4 -D/-U options leaves exactly the macros a compiler would define - confirmed over all paths by CrossHair.")
LEVEL_NOTE = ("Trusted: CrossHair/z3 (string theory for option values), stdlib argparse as executed. Bounded: 2/3 slots, one "
              "catalogue flag per vector, values <= 3 characters; response-file contents and -Wp,/-Xpreprocessor forwarding are outside.")
