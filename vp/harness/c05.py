"""C05 - a physical line is counted iff it holds code outside comments.

Symbolic W-method on the product of the real FileParser (c_cleaner / c_file_source / LineGroup / parse_file) and
the reference scanner vp.refs.ref_clex: text = cover prefix . m arbitrary characters . distinguishing suffix.
"""

from __future__ import annotations

from collections import Counter

from vp import memfs
from vp.driver import Ob
from vp.refs import ref_clex

PROPERTY = "C05"
LEVEL = "model_checking"
ENGINE = "crosshair+z3"
TECHNIQUE = ("CrossHair symbolic execution of the real C line cleaner/parser on cover-prefix + symbolic characters + "
             "distinguishing-suffix texts (symbolic W-method) against a reference scanner")
FUNCTIONS = [
    "codebasin/file_source.py:c_cleaner.process", "codebasin/file_source.py:c_cleaner.logical_newline",
    "codebasin/file_source.py:one_space_line", "codebasin/file_source.py:line_info", "codebasin/file_source.py:c_file_source",
    "codebasin/file_parser.py:LineGroup", "codebasin/file_parser.py:FileParser.parse_file",
    "codebasin/file_parser.py:FileParser.handle_directive/insert_code_node/insert_directive_node",
    "codebasin/preprocessor.py:Lexer.tokenize + DirectiveParser.parse (on each directive line)",
]
STUBS = ["file_parser.open -> in-memory pure-Python text file holding the (partly symbolic) text", "module loggers -> recorder",
         "Lexer.tokenize on directive lines -> fixed '#pragma' tokens while under CrossHair (token-level lexing of symbolic text "
         "is not executable in the tracer); replays run the real Lexer"]
ASSUMPTIONS = [
    "alphabet of the symbolic characters: printable ASCII, space, tab, newline (superset of the property's alphabet); control "
    "characters and non-ASCII are excluded because Python's isspace() and C's white-space set differ there and the property does "
    "not say which is right",
    "texts the reference rejects as not well-formed (unterminated literal/comment, stray backslash, empty character constant) "
    "are outside the property",
    "W-method argument: detects any lexical state machine with at most |reference states| + (m-1) states that differs from the "
    "reference; beyond that bound nothing is claimed",
]
BOUNDS = {
    "quick": "20 cover prefixes x 13 suffixes x 1 symbolic character (all of the alphabet at once)",
    "thorough": "20 cover prefixes x 13 suffixes x 2 symbolic characters, plus every text of <= 4 symbolic characters from the initial state",
}
EXPLANATION = (
    "For every (access text of a reference lexical state, characterising suffix) pair the text prefix + m symbolic characters + "
    "suffix is parsed by the real FileParser.parse_file; CrossHair/z3 partition the alphabet per position along the branches of "
    "both the implementation and the reference scanner, and the postcondition (same counted physical lines, same directive "
    "logical lines, each line in exactly one node, total_sloc equal, no exception) is confirmed over all paths."
)

P = {}
STATS = Counter()
LAST = {}

BS = chr(92)
COVER = [
    ("start", ""),
    ("code", "a"),
    ("directive", "#d"),
    ("slash", "a/"),
    ("slash-bol", "/"),
    ("line-comment", "a//c"),
    ("block", "a/*c"),
    ("block-star", "a/*c*"),
    ("string", 'a"s'),
    ("string-esc", 'a"s' + BS),
    ("char", "a'"),
    ("char-body", "a'k"),
    ("char-esc", "a'" + BS),
    ("block-line2", "a/*\nc"),
    ("line-comment-spliced", "a//c" + BS + "\n"),
    ("directive-spliced", "#d" + BS + "\n"),
    ("after-comment-blank", "/**/"),
    ("directive-string", '#i "'),
    ("directive-block", "#d /*\n"),
    ("bom", "\ufeff"),  # a UTF-8 byte-order mark (decoded) in front of the first line
]
SUFFIX = [
    ("nl", "\nb\n"),
    ("close-block", "*/ c\nd\n"),
    ("close-string", '"\ne\n'),
    ("close-char", "'\nf\n"),
    ("slash", "/ g\nh\n"),
    ("hash", "\n#y\nz\n"),
    ("splice", BS + "\nq\n"),
    # a comment terminator split by a backslash-newline: the '*' that the symbolic character may supply ends a line and the
    # '/' starts the next one (on an interior line of the comment with the access text block-line2: seed C05e)
    ("splice-slash", BS + "\n/ g\nh\n"),
    ("star-slash-code", "*/x" + BS + "\ny\n#z\n"),
    # a '/' at the start of the next line must not pair with a '*' that ended the previous line of a block comment
    ("slash-nl-close", "/\nq\n*/\nh\n"),
    ("quote-then-close", '"\n*/ k\n"s"\n'),
    # inside a string a comment opener is text: separates "in a string literal" from every other state ...
    ("opener-in-string", '/*"\nb\n*/ c\n'),
    # ... and the same after the closing quote of a character constant (the demo of seed C05d: '/' followed by "/*")
    ("close-char-opener-in-string", "'" + '"/*"\nb\n*/ c\n'),
]


def _alpha_ok(s):
    for c in s:
        o = ord(c)
        if not (32 <= o < 127 or o == 9 or o == 10):
            return False
    return True


def _region(fid, text):
    """known-finding regions over the whole text (evaluated on symbolic strings by character tests only)"""
    n = len(text)
    if fid == "C05-char-literal-comment-opener":
        # a '/' directly followed by '*' or '/' inside a character literal
        inq = False
        i = 0
        st = 0  # 0 code 1 line comment 2 block 3 string 4 char
        while i < n:
            c = text[i]
            nx = text[i + 1] if i + 1 < n else ""
            if st == 0:
                if c == "/" and nx == "/":
                    st = 1
                    i += 1
                elif c == "/" and nx == "*":
                    st = 2
                    i += 1
                elif c == '"':
                    st = 3
                elif c == "'":
                    st = 4
            elif st == 1:
                if c == "\n" and (i == 0 or text[i - 1] != BS):
                    st = 0
            elif st == 2:
                if c == "*" and nx == "/":
                    st = 0
                    i += 1
            elif st == 3:
                if c == BS:
                    i += 1
                elif c == '"' or c == "\n":
                    st = 0
            else:
                if c == BS:
                    i += 1
                elif c == "/" and (nx == "*" or nx == "/"):
                    return True
                elif c == "/" and nx == BS and i + 3 < n and text[i + 2] == "\n" and (text[i + 3] == "*" or text[i + 3] == "/"):
                    return True
                elif c == "'" or c == "\n":
                    st = 0
            i += 1
        return False
    if fid == "C05-slash-before-splice":
        # '/' immediately before a backslash-newline (pending FOUND_SLASH across a splice)
        i = 0
        while i + 2 < n:
            if text[i] == "/" and text[i + 1] == BS and text[i + 2] == "\n":
                return True
            i += 1
        return False
    return False


def _pre(seg):
    if not (P["mmin"] <= len(seg) <= P["m"]):
        return False
    return _alpha_ok(seg)


def _parse(text):
    """real FileParser on the text -> (code_lines list-of-lists, directive tuples, total_sloc)"""
    import codebasin.file_parser as file_parser
    import codebasin.preprocessor as pp

    fs = memfs.MemFS("/r")
    fs.add("/r/t.c", "")
    fs.files["/r/t.c"] = text
    real_tokenize = pp.Lexer.tokenize
    if not P.get("_replay"):
        # CrossHair cannot run the token-level Lexer on a partly symbolic directive line (list += symbolic str
        # raises TypeError inside the tracer); which DirectiveNode subclass is built is irrelevant for line counting,
        # so under the solver every directive line is tokenised as '#pragma'.  Replays use the real Lexer.
        pp.Lexer.tokenize = lambda self: [pp.Operator(self.line, 0, False, "#"), pp.Identifier(self.line, 1, False, "pragma")]
    try:
        with memfs.mounted(fs):
            tree = file_parser.FileParser("/r/t.c").parse_file(summarize_only=True)
    finally:
        pp.Lexer.tokenize = real_tokenize
    code, dirs = [], []
    for node in tree.walk():
        if isinstance(node, pp.DirectiveNode):
            dirs.append(tuple(node.lines))
        elif isinstance(node, pp.CodeNode):
            code.append(list(node.lines))
    return code, dirs, tree.root.total_sloc


def h_text(seg: str) -> bool:
    """
    pre: _pre(seg)
    post: _
    """
    text = P["prefix"] + seg + P["suffix"]
    ref = ref_clex.classify(text)
    if not ref.ok:
        return True
    for fid in P.get("regions", []):
        if _region(fid, text):
            return True
    w = P.get("witness")
    if w and not _region(w, text):
        return True
    STATS["compared"] += 1
    if P.get("_twin"):
        return False
    try:
        code, dirs, sloc = _parse(text)
    except Exception as e:
        if P.get("_replay"):
            LAST.update(text=text, exception=repr(e), expected_counted=sorted(ref.counted))
        return False
    nlines = 1
    for c in text:
        if c == "\n":
            nlines += 1
    seen = []
    for ls in code:
        seen.extend(ls)
    for d in dirs:
        seen.extend(d)
    ok = True
    why = ""
    s = set(seen)
    if len(s) != len(seen):
        ok, why = False, "a line is in two nodes"
    elif s != ref.counted:
        ok, why = False, "counted lines differ"
    elif sorted(dirs) != sorted(ref.directives):
        ok, why = False, "directive lines differ"
    elif sloc != len(ref.counted):
        ok, why = False, "total_sloc differs"
    else:
        for l in seen:
            if not (1 <= l <= nlines):
                ok, why = False, "line outside file"
    if P.get("_replay"):
        LAST.update(text=text, why=why, counted=sorted(s), expected_counted=sorted(ref.counted), directives=sorted(dirs),
                    expected_directives=sorted(ref.directives), total_sloc=sloc)
    return ok


def replay(obd, cex):
    """native re-run, then the public path: a real file on disk through the unpatched FileParser; gcc -E -fpreprocessed
    is not an oracle for line counts, so the reference stands alone (stated in DESIGN)"""
    import os
    import shutil
    import sys
    import tempfile

    mod = sys.modules[__name__]
    mod.P = dict(obd["params"], _twin=False, _replay=True)
    mod.LAST = {}
    args, kw = cex
    try:
        ok = h_text(*args, **kw)
    except Exception as e:
        ok = False
        LAST.update(exception=repr(e))
    detail = dict(LAST)
    if ok is not False:
        return dict(reproduced=False, detail=detail)
    text = detail.get("text")
    d = tempfile.mkdtemp(prefix="vp_c05_")
    try:
        import codebasin.file_parser as file_parser
        import codebasin.preprocessor as pp

        p = os.path.join(d, "t.c")
        with open(p, "w") as f:
            f.write(text)
        ref = ref_clex.classify(text)
        try:
            tree = file_parser.FileParser(p).parse_file(summarize_only=True)
            lines = []
            dirs = []
            for node in tree.walk():
                if isinstance(node, pp.CodeNode):
                    lines.extend(node.lines)
                if isinstance(node, pp.DirectiveNode):
                    dirs.append(tuple(node.lines))
            bad = (sorted(lines) != sorted(ref.counted)) or sorted(dirs) != sorted(ref.directives) or \
                tree.root.total_sloc != len(ref.counted)
            detail.update(disk_counted=sorted(lines), disk_directives=sorted(dirs))
        except Exception as e:
            bad = True
            detail.update(disk_exception=repr(e))
        return dict(reproduced=bad, detail=detail)
    finally:
        shutil.rmtree(d, ignore_errors=True)


def obligations(tier, known):
    regions = sorted(known)
    obs = []
    m = 1 if tier == "quick" else 2
    import itertools

    rep = ["a", "1", " ", "\t", "\n", "/", "*", '"', "'", BS, "#", ";"]
    for cname, pre in COVER:
        for sname, suf in SUFFIX:
            # skip (prefix, suffix) pairs for which no continuation gives a well-formed text (decided natively on a
            # representative alphabet): they are outside the property, not inconclusive
            if not any(ref_clex.classify(pre + "".join(t) + suf).ok
                       and not any(_region(f, pre + "".join(t) + suf) for f in regions)
                       for t in itertools.product(rep, repeat=m)):
                continue
            obs.append(Ob(id="w/%s/%s/m%d" % (cname, sname, m), kind="ch", module=__name__, func="h_text",
                          params=dict(prefix=pre, suffix=suf, m=m, mmin=m, regions=regions), timeout=150 if m == 1 else 420,
                          group="wmethod"))
    if tier == "thorough":
        obs.append(Ob(id="all/len<=4", kind="ch", module=__name__, func="h_text",
                      params=dict(prefix="", suffix="\n", m=4, mmin=0, regions=regions), timeout=1500, group="bounded"))
    else:
        obs.append(Ob(id="all/len<=2", kind="ch", module=__name__, func="h_text",
                      params=dict(prefix="", suffix="\n", m=2, mmin=0, regions=regions), timeout=150, group="bounded"))
    wit = {
        "C05-char-literal-comment-opener": dict(prefix="c = '/", suffix="';\nx\n", m=1, mmin=1),
        "C05-slash-before-splice": dict(prefix="a /" + BS + "\n", suffix=" b\n", m=1, mmin=1),
    }
    for fid in regions:
        if fid in wit:
            obs.append(Ob(id="witness/" + fid, kind="ch", module=__name__, func="h_text",
                          params=dict(wit[fid], regions=[], witness=fid), timeout=120, expect="witness:" + fid,
                          group="witness"))
    return obs


def mc_coverage(results):
    """model_checking evidence keys: product states = cover prefixes reached x solver-separated classes"""
    paths = sum(r["paths"] for r in results)
    compared = sum(r.get("compared", 0) for r in results)
    return dict(states=len(COVER), transitions=max(1, compared), traces_validated_against_impl=compared,
                exhaustive=False)


CLAIM = ("Bounded model checking of the product of CBI's line cleaner and a reference scanner: from every reference lexical state "
         "(20 access texts) every 1 (quick) / 2 (thorough) character continuation over the whole alphabet, observed through 12 "
         "characterising suffixes, yields exactly the reference's counted lines and directive lines - decided by CrossHair "
         "exhausting all paths per obligation.")
LEVEL_NOTE = ("Trusted: CrossHair/z3 string theory, vp/refs/ref_clex.py (no system oracle exists for line classification), the "
              "hand-chosen state cover and suffix set. Outside: trigraphs, raw strings, CR-LF, non-ASCII, ill-formed texts.")
