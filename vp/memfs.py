"""In-memory file system and the context manager that mounts it into the
codebasin modules (environment stub, listed in every evidence file that uses
it).  Paths are concrete POSIX strings; *existence* of a path may be a
symbolic bool (``maybe``), so that the solver chooses which copies of a header
exist.

Mounted names:  file_parser.open, finder.os/platform.os/file_parser.os/
preprocessor.os/config.os (a façade whose ``path`` answers from the MemFS),
finder.Path (is_symlink/resolve), finder.tqdm (identity), report.Path/open
where requested.
"""

from __future__ import annotations

import contextlib
import io
import posixpath


class MemFS:
    def __init__(self, cwd="/r"):
        self.files = {}  # abs path -> str
        self.links = {}  # abs path -> link text as stored in the link (absolute, or relative to the link's directory)
        self.dirs = {"/"}
        self.maybe = {}  # abs path -> bool (possibly symbolic): overrides existence of a regular file
        self.cwd = cwd
        self.opened = []
        self.mkdir(cwd)

    # construction ---------------------------------------------------------
    def mkdir(self, d):
        d = posixpath.normpath(d)
        while d not in self.dirs:
            self.dirs.add(d)
            d = posixpath.dirname(d)

    def add(self, path, text, **kw):
        path = posixpath.normpath(path)
        self.mkdir(posixpath.dirname(path))
        if isinstance(text, (list, tuple)):
            text = "".join(l + "\n" for l in text)
        self.files[path] = text
        if "exists" in kw:
            # stored without looking at it: an `is`/`==` test on a symbolic bool would make CrossHair fork here
            self.maybe[path] = kw["exists"]

    def symlink(self, path, target):
        path = posixpath.normpath(path)
        self.mkdir(posixpath.dirname(path))
        self.links[path] = posixpath.normpath(target) if target.startswith("/") else target

    def readlink(self, p):
        return self.links[self.abspath(p)]

    # resolution -----------------------------------------------------------
    def abspath(self, p):
        p = str(p)
        if not p.startswith("/"):
            p = posixpath.join(self.cwd, p)
        return posixpath.normpath(p)

    def realpath(self, p, _depth=0):
        """like os.path.realpath (non-strict): symbolic links are resolved segment by segment, *before* a following
        '..' is applied - 'link/..' is the parent of the link's target, not of the link"""
        p = str(p)
        if not p.startswith("/"):
            p = posixpath.join(self.cwd, p)
        if _depth > 40:
            return posixpath.normpath(p)
        cur = ""
        parts = [x for x in p.split("/") if x]
        for i, part in enumerate(parts):
            if part == ".":
                continue
            if part == "..":
                cur = posixpath.dirname(cur) if cur else ""
                if cur == "/":
                    cur = ""  # (the root: the next component is appended as "/name")
                continue
            cur = cur + "/" + part
            if cur in self.links:
                tgt = self.links[cur]
                if not tgt.startswith("/"):
                    tgt = posixpath.dirname(cur) + "/" + tgt
                rest = "/".join(parts[i + 1:])
                return self.realpath(tgt + ("/" + rest if rest else ""), _depth + 1)
        return cur or "/"

    def _walkable(self, p, _depth=0):
        """as the kernel walks a path: every component that is followed by another one (also by '..') must be an
        existing directory - 'nodir/../x.h' leads nowhere if nodir does not exist"""
        p = str(p)
        if not p.startswith("/"):
            p = posixpath.join(self.cwd, p)
        if _depth > 40:
            return False
        cur = ""
        parts = [x for x in p.split("/") if x]
        for i, part in enumerate(parts):
            if part == ".":
                continue
            if part == "..":
                cur = posixpath.dirname(cur) if cur else ""
                if cur == "/":
                    cur = ""  # (the root: the next component is appended as "/name")
                continue
            cur = cur + "/" + part
            last = i == len(parts) - 1
            if cur in self.links:
                tgt = self.links[cur]
                if not tgt.startswith("/"):
                    tgt = posixpath.dirname(cur) + "/" + tgt
                rest = "/".join(parts[i + 1:])
                return self._walkable(tgt + ("/" + rest if rest else ""), _depth + 1)
            if not last and cur not in self.dirs:
                return False
        return True

    def isfile(self, p):
        if not self._walkable(p):
            return False
        r = self.realpath(p)
        if r in self.files:
            return self.maybe.get(r, True)
        return False

    def isdir(self, p):
        return self._walkable(p) and self.realpath(p) in self.dirs

    def exists(self, p):
        if not self._walkable(p):
            return False
        r = self.realpath(p)
        if r in self.files:
            return self.maybe.get(r, True)
        return r in self.dirs

    def islink(self, p):
        return self.abspath(p) in self.links

    def open(self, path, mode="r", *a, **kw):
        r = self.realpath(path)
        if r not in self.files or self.maybe.get(r, True) is False:
            raise FileNotFoundError(path)
        self.opened.append(r)
        if "b" in mode:
            return io.BytesIO(self.files[r].encode())
        return TextFile(self.files[r])

    def listing(self, d):
        """all files and links (recursively) under directory d, unresolved spellings"""
        d = self.abspath(d)
        pre = d.rstrip("/") + "/"
        out = [p for p in self.files if p.startswith(pre)]
        out += [p for p in self.links if p.startswith(pre)]
        return sorted(out)

    # materialise on a real disk (replays) -----------------------------------
    def materialise(self, root, exists=None):
        import os

        for p, text in self.files.items():
            e = self.maybe.get(p, True) if exists is None else exists.get(p, True)
            if not e:
                continue
            q = root + p
            os.makedirs(os.path.dirname(q), exist_ok=True)
            with open(q, "w") as f:
                f.write(text)
        for d in self.dirs:
            os.makedirs(root + d, exist_ok=True)
        for p, t in self.links.items():
            q = root + p
            os.makedirs(os.path.dirname(q), exist_ok=True)
            if not os.path.lexists(q):
                os.symlink(root + t if t.startswith("/") else t, q)


class TextFile:
    """pure-Python read-only text file (keeps a CrossHair symbolic str symbolic, unlike io.StringIO)"""

    def __init__(self, text):
        self.text = text
        self.pos = 0

    def __enter__(self):
        return self

    def __exit__(self, *a):
        return False

    def __iter__(self):
        t = self.text
        start = self.pos
        n = len(t)
        i = start
        while i < n:
            if t[i] == "\n":
                yield t[start:i + 1]
                start = i + 1
            i += 1
        if start < n:
            yield t[start:]

    def read(self, n=None):
        if n is None:
            out, self.pos = self.text[self.pos:], len(self.text)
        else:
            out, self.pos = self.text[self.pos:self.pos + n], min(len(self.text), self.pos + n)
        return out

    def seek(self, pos, whence=0):
        self.pos = pos
        return pos

    def tell(self):
        return self.pos

    def close(self):
        pass


class _PathFacade:
    def __init__(self, fs):
        self.fs = fs
        for n in ("join", "dirname", "basename", "normpath", "splitext", "isabs", "split", "relpath", "commonpath"):
            setattr(self, n, getattr(posixpath, n))
        self.sep = "/"

    def abspath(self, p, *extra):
        if extra:
            # mirror os.path.abspath's signature error
            raise TypeError("abspath() takes 1 positional argument but %d were given" % (1 + len(extra)))
        return self.fs.abspath(p)

    def realpath(self, p):
        return self.fs.realpath(p)

    def isfile(self, p):
        return self.fs.isfile(p)

    def isdir(self, p):
        return self.fs.isdir(p)

    def exists(self, p):
        return self.fs.exists(p)

    def islink(self, p):
        return self.fs.islink(p)


class OSFacade:
    def __init__(self, fs):
        self.path = _PathFacade(fs)
        self.sep = "/"
        self.fs = fs
        import os as _os

        self.PathLike = _os.PathLike
        self.fspath = _os.fspath

    def getcwd(self):
        return self.fs.cwd


def make_path_class(fs):
    class FakePath:
        def __init__(self, p):
            self.p = str(p)

        def is_symlink(self):
            return fs.islink(self.p)

        def resolve(self):
            return FakePath(fs.realpath(self.p))

        def readlink(self):
            return FakePath(fs.readlink(self.p))

        def absolute(self):
            return FakePath(self.p if self.p.startswith("/") else posixpath.join(fs.cwd, self.p))

        def is_absolute(self):
            return self.p.startswith("/")

        def is_file(self):
            return fs.isfile(self.p)

        @property
        def parent(self):
            return FakePath(posixpath.dirname(self.p))

        def __truediv__(self, o):
            return FakePath(posixpath.join(self.p, str(o)))

        def exists(self):
            return fs.exists(self.p)

        def is_dir(self):
            return fs.isdir(self.p)

        def __str__(self):
            return self.p

        def __fspath__(self):
            return self.p

        def __eq__(self, o):
            return str(o) == self.p

        def __hash__(self):
            return len(self.p)  # (hash() of a str is intercepted by the tracer and may not be a plain int)

        def __repr__(self):
            return "FakePath(%r)" % self.p

        @property
        def name(self):
            return posixpath.basename(self.p)

        @property
        def suffix(self):
            return posixpath.splitext(self.p)[1]

        @property
        def parents(self):
            out = []
            d = self.p
            while True:
                nd = posixpath.dirname(d)
                if nd == d:
                    break
                out.append(FakePath(nd))
                d = nd
            return out

        def is_relative_to(self, other):
            o = str(other).rstrip("/")
            return self.p == o or self.p.startswith(o + "/") or o == ""

        def relative_to(self, other):
            o = str(other).rstrip("/")
            if not self.is_relative_to(other):
                raise ValueError("not relative")
            return FakePath(self.p[len(o) + 1:])

    return FakePath


class Recorder:
    """stand-in for a module logger: keeps (level, message)"""

    def __init__(self):
        self.records = []

    def _log(self, lvl, msg, *a, **k):
        self.records.append((lvl, str(msg)))

    def warning(self, msg, *a, **k):
        self._log("warning", msg)

    def error(self, msg, *a, **k):
        self._log("error", msg)

    def info(self, msg, *a, **k):
        self._log("info", msg)

    def debug(self, msg, *a, **k):
        pass

    def critical(self, msg, *a, **k):
        self._log("critical", msg)

    def isEnabledFor(self, lvl):
        return False

    def warnings(self):
        return [m for l, m in self.records if l == "warning"]


@contextlib.contextmanager
def mounted(fs, loggers=True):
    """mount `fs` into the codebasin modules; yields a Recorder collecting log records"""
    import codebasin.config as config
    import codebasin.file_parser as file_parser
    import codebasin.finder as finder
    import codebasin.platform as platform
    import codebasin.preprocessor as preprocessor

    osf = OSFacade(fs)
    rec = Recorder()
    saved = []

    def setattr_(mod, name, val):
        saved.append((mod, name, getattr(mod, name, _MISSING)))
        setattr(mod, name, val)

    for m in (finder, platform, file_parser, preprocessor, config):
        setattr_(m, "os", osf)
    setattr_(file_parser, "open", fs.open)
    setattr_(finder, "Path", make_path_class(fs))
    setattr_(finder, "tqdm", lambda it, **k: it)
    if loggers:
        for m in (finder, platform, file_parser, preprocessor, config):
            if hasattr(m, "log"):
                setattr_(m, "log", rec)
    try:
        yield rec
    finally:
        for mod, name, old in reversed(saved):
            if old is _MISSING:
                delattr(mod, name)
            else:
                setattr(mod, name, old)


_MISSING = object()


class FakeCodeBase:
    """iterable + membership; stands in for codebasin.CodeBase where the
    member set itself is scenario input"""

    def __init__(self, members, directories=("/r",)):
        self.members = list(members)
        self._set = set(members)
        self.directories = list(directories)

    def __iter__(self):
        return iter(self.members)

    def __contains__(self, p):
        return str(p) in self._set
