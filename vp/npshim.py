"""A model of the NumPy 1.26 scalar semantics that codebasin.preprocessor's
expression evaluator relies on, usable as a drop-in for the module global
``np`` of codebasin.preprocessor.

Two payload back ends share one set of kind rules:

* ``Z3BV``  - payload is a 64-bit z3 bit-vector; truth tests fork through the
  active vp.bvsem context.  Used by the E3 obligations (all 2^128 operand
  pairs at once).
* ``PyInt`` - payload is a Python int (which may be a CrossHair symbolic int),
  normalised with explicit wrap-around.  Used when the real parser runs under
  CrossHair (L-parse, L-lit).

The model is an *assumption* of the C02 check; vp.harness.c02 validates it
against the real NumPy on a boundary grid and on every solver witness on
every run (``validate_against_numpy``).

Anything the evaluator could do with these scalars that is not modelled
raises Unmodelled, which turns the obligation inconclusive (never an alarm).
"""

from __future__ import annotations

M64 = 1 << 64
M63 = 1 << 63


class Unmodelled(Exception):
    pass


class ShimTypeError(TypeError):
    """NumPy would raise TypeError here (e.g. int64 | uint64)."""


# --------------------------------------------------------------------------
# back ends


class PyInt:
    name = "pyint"

    @staticmethod
    def const(n, signed):
        return n

    @staticmethod
    def norm(v, signed):
        if signed:
            return ((v + M63) % M64) - M63
        return v % M64

    @staticmethod
    def truth(cond):
        return bool(cond)

    @staticmethod
    def ite(c, a, b):
        return a if c else b

    @staticmethod
    def band(a, b):
        return a and b

    @staticmethod
    def bor(a, b):
        return a or b

    @staticmethod
    def bnot(a):
        return not a

    @staticmethod
    def bxor(a, b):
        return bool(a) != bool(b)

    # arithmetic on mathematical ints, normalised by caller
    add = staticmethod(lambda a, b, s: PyInt.norm(a + b, s))
    sub = staticmethod(lambda a, b, s: PyInt.norm(a - b, s))
    mul = staticmethod(lambda a, b, s: PyInt.norm(a * b, s))

    @staticmethod
    def floordiv(a, b, s):
        if b == 0:
            return 0
        return PyInt.norm(a // b, s)

    @staticmethod
    def mod(a, b, s):
        if b == 0:
            return 0
        return PyInt.norm(a % b, s)

    @staticmethod
    def shl(a, b, s):
        if b < 0 or b >= 64:
            return 0
        return PyInt.norm(a * (2 ** b), s)

    @staticmethod
    def shr(a, b, s):
        if b < 0 or b >= 64:
            return -1 if (s and a < 0) else 0
        return a // (2 ** b)

    @staticmethod
    def _bits(a):
        return a % M64

    @staticmethod
    def and_(a, b, s):
        return PyInt.norm(PyInt._bits(a) & PyInt._bits(b), s)

    @staticmethod
    def or_(a, b, s):
        return PyInt.norm(PyInt._bits(a) | PyInt._bits(b), s)

    @staticmethod
    def xor(a, b, s):
        return PyInt.norm(PyInt._bits(a) ^ PyInt._bits(b), s)

    neg = staticmethod(lambda a, s: PyInt.norm(-a, s))
    inv = staticmethod(lambda a, s: PyInt.norm(-a - 1, s))
    lt = staticmethod(lambda a, b, s: a < b)
    le = staticmethod(lambda a, b, s: a <= b)
    eq = staticmethod(lambda a, b: a == b)

    @staticmethod
    def cast(v, from_signed, to_signed):
        return PyInt.norm(v, to_signed)

    @staticmethod
    def from_bool(c):
        return 1 if c else 0


class Z3BV:
    name = "z3bv"
    width = 64
    ctx = None  # vp.bvsem context with .decide(cond)

    @staticmethod
    def _z3():
        import z3

        return z3

    @staticmethod
    def const(n, signed):
        return Z3BV._z3().BitVecVal(n % (1 << Z3BV.width), Z3BV.width)

    @staticmethod
    def norm(v, signed):
        return v

    @staticmethod
    def truth(cond):
        return Z3BV.ctx.decide(cond)

    @staticmethod
    def ite(c, a, b):
        return Z3BV._z3().If(c, a, b)

    @staticmethod
    def band(a, b):
        return Z3BV._z3().And(a, b)

    @staticmethod
    def bor(a, b):
        return Z3BV._z3().Or(a, b)

    @staticmethod
    def bnot(a):
        return Z3BV._z3().Not(a)

    @staticmethod
    def bxor(a, b):
        return Z3BV._z3().Xor(a, b)

    add = staticmethod(lambda a, b, s: a + b)
    sub = staticmethod(lambda a, b, s: a - b)
    mul = staticmethod(lambda a, b, s: a * b)

    @staticmethod
    def floordiv(a, b, s):
        z3 = Z3BV._z3()
        zero = z3.BitVecVal(0, Z3BV.width)
        if not s:
            return z3.If(b == 0, zero, z3.UDiv(a, b))
        q = a / b  # bvsdiv (truncating)
        r = z3.SRem(a, b)
        adj = z3.And(r != 0, (a < 0) != (b < 0))
        return z3.If(b == 0, zero, z3.If(adj, q - 1, q))

    @staticmethod
    def mod(a, b, s):
        z3 = Z3BV._z3()
        zero = z3.BitVecVal(0, Z3BV.width)
        if not s:
            return z3.If(b == 0, zero, z3.URem(a, b))
        r = z3.SRem(a, b)
        adj = z3.And(r != 0, (a < 0) != (b < 0))
        return z3.If(b == 0, zero, z3.If(adj, r + b, r))

    @staticmethod
    def shl(a, b, s):
        return a << b  # count >= 64 (or "negative") gives 0, as NumPy

    @staticmethod
    def shr(a, b, s):
        z3 = Z3BV._z3()
        return (a >> b) if s else z3.LShR(a, b)

    and_ = staticmethod(lambda a, b, s: a & b)
    or_ = staticmethod(lambda a, b, s: a | b)
    xor = staticmethod(lambda a, b, s: a ^ b)
    neg = staticmethod(lambda a, s: -a)
    inv = staticmethod(lambda a, s: ~a)

    @staticmethod
    def lt(a, b, s):
        return (a < b) if s else Z3BV._z3().ULT(a, b)

    @staticmethod
    def le(a, b, s):
        return (a <= b) if s else Z3BV._z3().ULE(a, b)

    eq = staticmethod(lambda a, b: a == b)

    @staticmethod
    def cast(v, from_signed, to_signed):
        return v

    @staticmethod
    def from_bool(c):
        z3 = Z3BV._z3()
        return z3.If(c, z3.BitVecVal(1, Z3BV.width), z3.BitVecVal(0, Z3BV.width))


B = PyInt  # active back end


def use(backend):
    global B
    B = backend


# --------------------------------------------------------------------------
# scalar kinds


class generic:
    kind = "?"
    signed = True

    def __init__(self, v):
        self.v = v

    def astype(self, cls):
        return cls(self)

    def __repr__(self):
        return "%s(%r)" % (type(self).__name__, self.v)

    __hash__ = None


def _coerce(x):
    """Python scalars NumPy accepts as the other operand"""
    if isinstance(x, generic):
        return x
    if isinstance(x, bool):
        return bool_(x)
    if isinstance(x, int):
        return _PyIntConst(x)
    raise Unmodelled("operand of type %s" % type(x).__name__)


class _PyIntConst(generic):
    kind = "pyint"

    def __init__(self, n):
        self.n = n
        self.v = None


class bool_(generic):
    kind = "bool"

    def __init__(self, c):
        if isinstance(c, generic):
            if c.kind in ("i64", "u64"):
                c = B.bnot(B.eq(c.v, B.const(0, True)))
            elif c.kind == "bool":
                c = c.c
            else:
                raise Unmodelled("bool_(%s)" % c.kind)
        self.c = c
        self.v = None

    def __bool__(self):
        return B.truth(self.c)

    # NumPy: bool_ & | ^ are logical; == != on bools
    def _with(self, o, f):
        o = _coerce(o)
        if o.kind == "bool":
            return bool_(f(self.c, o.c))
        return NotImplemented

    def __and__(self, o):
        r = self._with(o, B.band)
        return _promote_bool(self, o, "__and__") if r is NotImplemented else r

    def __or__(self, o):
        r = self._with(o, B.bor)
        return _promote_bool(self, o, "__or__") if r is NotImplemented else r

    def __xor__(self, o):
        r = self._with(o, B.bxor)
        return _promote_bool(self, o, "__xor__") if r is NotImplemented else r

    def __eq__(self, o):
        r = self._with(o, lambda a, b: B.bnot(B.bxor(a, b)))
        return _promote_bool(self, o, "__eq__") if r is NotImplemented else r

    def __ne__(self, o):
        r = self._with(o, B.bxor)
        return _promote_bool(self, o, "__ne__") if r is NotImplemented else r

    def __invert__(self):
        return bool_(B.bnot(self.c))  # NumPy: logical not (differs from C's ~)

    def __neg__(self):
        raise ShimTypeError("numpy boolean negative")

    def __pos__(self):
        raise ShimTypeError("ufunc 'positive' did not contain a loop for bool")

    def _arith(self, o, name):
        o = _coerce(o)
        if o.kind == "bool":
            if name in ("__add__", "__radd__"):
                return bool_(B.bor(self.c, o.c))
            if name in ("__mul__", "__rmul__"):
                return bool_(B.band(self.c, o.c))
            if name in ("__sub__", "__rsub__"):
                raise ShimTypeError("numpy boolean subtract")
            if name in ("__lt__",):
                return bool_(B.band(B.bnot(self.c), o.c))
            if name in ("__gt__",):
                return bool_(B.band(self.c, B.bnot(o.c)))
            if name in ("__le__",):
                return bool_(B.bor(B.bnot(self.c), o.c))
            if name in ("__ge__",):
                return bool_(B.bor(self.c, B.bnot(o.c)))
            raise Unmodelled("bool_ %s bool_ yields int8" % name)
        return _promote_bool(self, o, name)


def _promote_bool(b, o, name):
    """bool_ with int64/uint64: the bool becomes 0/1 of the other kind"""
    o = _coerce(o)
    if o.kind in ("i64", "u64"):
        me = type(o)(B.from_bool(b.c))
        return getattr(me, name)(o)
    if o.kind == "pyint":
        raise Unmodelled("bool_ with python int")
    raise Unmodelled("bool_ %s %s" % (name, o.kind))


for _n in ("__add__", "__radd__", "__sub__", "__rsub__", "__mul__", "__rmul__", "__floordiv__", "__rfloordiv__",
           "__mod__", "__rmod__", "__lshift__", "__rlshift__", "__rshift__", "__rrshift__", "__lt__", "__le__",
           "__gt__", "__ge__"):
    setattr(bool_, _n, (lambda name: lambda self, o: self._arith(o, name))(_n))


class _Int(generic):
    def __init__(self, x=0):
        if isinstance(x, generic):
            if x.kind in ("i64", "u64"):
                v = B.cast(x.v, x.signed, self.signed)
            elif x.kind == "bool":
                v = B.from_bool(x.c)
            elif x.kind == "pyint":
                v = B.const(x.n, self.signed)
            else:
                raise Unmodelled("%s(%s)" % (type(self).__name__, x.kind))
        elif isinstance(x, bool):
            v = B.const(int(x), self.signed)
        elif isinstance(x, int) and type(x) is int and B is Z3BV:
            if not (-M63 <= x < M64) or (self.signed and x >= M63) or (not self.signed and x < 0):
                raise OverflowError("Python integer out of bounds for " + type(self).__name__)
            v = B.const(x, self.signed)
        elif B is PyInt and isinstance(x, int):
            # real NumPy raises OverflowError for out-of-range Python ints
            if self.signed:
                if not (-M63 <= x < M63):
                    raise OverflowError("Python int too large to convert to C long")
            else:
                if not (0 <= x < M64):
                    raise OverflowError("Python integer out of bounds for uint64")
            v = x
        else:
            v = x  # raw payload
        self.v = v

    def __bool__(self):
        return B.truth(B.bnot(B.eq(self.v, B.const(0, self.signed))))

    def __index__(self):
        if B is PyInt:
            return self.v
        raise Unmodelled("__index__ on symbolic bit-vector")

    __int__ = __index__

    def _pair(self, o, name):
        """returns (cls, a, b) with both payloads in the common kind, or raises"""
        o = _coerce(o)
        if o.kind == "bool":
            o = type(self)(B.from_bool(o.c))
        if o.kind == "pyint":
            n = o.n
            if self.signed and -M63 <= n < M63:
                o = int64(B.const(n, True))
            elif (not self.signed) and 0 <= n < M63:
                o = uint64(B.const(n, False))
            else:
                raise Unmodelled("python int %d with %s (float64 result)" % (n, self.kind))
        if o.kind == self.kind:
            return type(self), self.v, o.v
        raise _Mixed(self, o)

    def _ar(self, o, f, name, swap=False):
        try:
            cls, a, b = self._pair(o, name)
        except _Mixed as m:
            if name in ("and", "or", "xor", "shl", "shr"):
                raise ShimTypeError("ufunc not supported for int64/uint64 mix")
            return float64(None)
        if swap:
            a, b = b, a
        return cls(f(a, b, cls.signed))

    def __add__(self, o):
        return self._ar(o, B.add, "add")

    def __radd__(self, o):
        return self._ar(o, B.add, "add", True)

    def __sub__(self, o):
        return self._ar(o, B.sub, "sub")

    def __rsub__(self, o):
        return self._ar(o, B.sub, "sub", True)

    def __mul__(self, o):
        return self._ar(o, B.mul, "mul")

    def __rmul__(self, o):
        return self._ar(o, B.mul, "mul", True)

    def __floordiv__(self, o):
        return self._ar(o, B.floordiv, "floordiv")

    def __rfloordiv__(self, o):
        return self._ar(o, B.floordiv, "floordiv", True)

    def __mod__(self, o):
        return self._ar(o, B.mod, "mod")

    def __rmod__(self, o):
        return self._ar(o, B.mod, "mod", True)

    def __lshift__(self, o):
        return self._ar(o, B.shl, "shl")

    def __rshift__(self, o):
        return self._ar(o, B.shr, "shr")

    def __and__(self, o):
        return self._ar(o, B.and_, "and")

    def __or__(self, o):
        return self._ar(o, B.or_, "or")

    def __xor__(self, o):
        return self._ar(o, B.xor, "xor")

    __rand__ = __and__
    __ror__ = __or__
    __rxor__ = __xor__

    def __neg__(self):
        return type(self)(B.neg(self.v, self.signed))

    def __pos__(self):
        return type(self)(self.v)

    def __invert__(self):
        return type(self)(B.inv(self.v, self.signed))

    def _cmp(self, o, name):
        oo = _coerce(o)
        if oo.kind == "pyint" and not self.signed and oo.n < 0:
            # uint64 against a negative Python int: decided on the mathematical values (u >= 0 > n)
            return bool_({"lt": False, "le": False, "gt": True, "ge": True, "eq": False, "ne": True}[name])
        try:
            cls, a, b = self._pair(oo, "cmp")
            s = cls.signed
            return bool_(_CMP[name](a, b, s))
        except _Mixed:
            pass
        # NumPy >= 1.26 compares int64 with uint64 exactly (on the mathematical values)
        if self.signed:
            sv, uv, flip = self.v, oo.v, False
        else:
            sv, uv, flip = oo.v, self.v, True
        neg = B.lt(sv, B.const(0, True), True)  # the signed operand is negative: it is the smaller one
        s_lt_u = B.bor(neg, B.lt(sv, uv, False))
        s_eq_u = B.band(B.bnot(neg), B.eq(sv, uv))
        if flip:  # self is the unsigned one: self ? other  ==  u ? s
            table = dict(lt=B.band(B.bnot(s_lt_u), B.bnot(s_eq_u)), le=B.bnot(s_lt_u), gt=s_lt_u,
                         ge=B.bor(s_lt_u, s_eq_u), eq=s_eq_u, ne=B.bnot(s_eq_u))
        else:
            table = dict(lt=s_lt_u, le=B.bor(s_lt_u, s_eq_u), gt=B.band(B.bnot(s_lt_u), B.bnot(s_eq_u)),
                         ge=B.bnot(s_lt_u), eq=s_eq_u, ne=B.bnot(s_eq_u))
        return bool_(table[name])

    def __lt__(self, o):
        return self._cmp(o, "lt")

    def __le__(self, o):
        return self._cmp(o, "le")

    def __gt__(self, o):
        return self._cmp(o, "gt")

    def __ge__(self, o):
        return self._cmp(o, "ge")

    def __eq__(self, o):
        return self._cmp(o, "eq")

    def __ne__(self, o):
        return self._cmp(o, "ne")


_CMP = dict(
    lt=lambda a, b, s: B.lt(a, b, s),
    le=lambda a, b, s: B.le(a, b, s),
    gt=lambda a, b, s: B.lt(b, a, s),
    ge=lambda a, b, s: B.le(b, a, s),
    eq=lambda a, b, s: B.eq(a, b),
    ne=lambda a, b, s: B.bnot(B.eq(a, b)),
)


class _Mixed(Exception):
    def __init__(self, a, b):
        self.a, self.b = a, b


class int64(_Int):
    kind = "i64"
    signed = True


class uint64(_Int):
    kind = "u64"
    signed = False


class float64(generic):
    """result of int64 (+-*/%) uint64 in NumPy: a foreign kind with no C
    counterpart; the value is not modelled"""

    kind = "f64"

    def __bool__(self):
        raise Unmodelled("truth of float64")

    def _no(self, *a):
        raise Unmodelled("float64 operand")

    __add__ = __radd__ = __sub__ = __rsub__ = __mul__ = __rmul__ = __floordiv__ = __mod__ = _no
    __lt__ = __le__ = __gt__ = __ge__ = __eq__ = __ne__ = __neg__ = __invert__ = __pos__ = _no
    __lshift__ = __rshift__ = __and__ = __or__ = __xor__ = _no
