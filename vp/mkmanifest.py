"""Regenerate /verif/MANIFEST.json from the harness modules' metadata."""
import importlib, json, os, sys
VERIF = os.path.dirname(os.path.dirname(os.path.abspath(__file__)))
ALL = ["C%02d" % i for i in range(1, 19)]
NA_REASON = {}
def main():
    checks, na = [], []
    for pid in ALL:
        try:
            m = importlib.import_module("vp.harness." + pid.lower())
        except ModuleNotFoundError:
            na.append(dict(property_id=pid, reason=NA_REASON.get(pid, "check not built yet in this round (planned in DESIGN.md section 7); nothing is claimed")))
            continue
        checks.append(dict(
            property_id=pid,
            quick_cmd=f"./check {pid} --tier quick",
            thorough_cmd=f"./check {pid} --tier thorough",
            evidence_file=f"/verif/evidence/{pid}.json",
            replay_cmd_template=f"./check {pid} --replay {{path}}",
            engine=getattr(m, "ENGINE", "crosshair+z3"),
            level_claimed=dict(category=m.LEVEL, text=m.CLAIM, design_ref="DESIGN.md A.3-A.6 (as built); original plan: section 7, " + pid),
            level_note=m.LEVEL_NOTE,
            technique=m.TECHNIQUE,
        ))
    man = dict(
        version=1,
        setup_cmd="sh ./setup.sh",
        hooks=dict(guard="CBI_VERIF", enable="none: no hooks are compiled in; harnesses rebind module attributes from outside",
                   baseline_off_cmd="cd /repo && /venv/bin/python -m pytest -ra -q -p no:cacheprovider --timeout=900",
                   source_commits=[], add_only=True),
        engines=[
            dict(name="crosshair", path="/verif/.venv (crosshair-tool 0.0.110 + z3-solver 5.1.0 from /opt/veriftools/wheels)",
                 serves_properties=[c["property_id"] for c in checks if "crosshair" in c["engine"]],
                 kind_free_text="symbolic execution of the real Python functions, z3 per branch"),
            dict(name="symreal", path="/verif/vp/symreal.py", serves_properties=["C07", "C14"],
                 kind_free_text="operator-overloading symbolic execution of report.py on exact fractions of z3 reals"),
            dict(name="bvsem", path="/verif/vp/bvsem.py", serves_properties=["C02"],
                 kind_free_text="64-bit bit-vector queries: NumPy scalar model of the dispatched Python operator vs ISO C"),
        ],
        checks=checks,
        not_applicable=na,
        notes="Every check regenerates its encoding from /repo's working tree. Exit 0 = nothing refuted (inconclusive obligations are listed, never counted as success); exit 1 + VIOLATION line = replayed counterexample; exit 3 = harness error (counterexample did not reproduce).",
    )
    with open(os.path.join(VERIF, "MANIFEST.json"), "w") as f:
        json.dump(man, f, indent=1)
    print("checks:", [c["property_id"] for c in checks], "na:", [n["property_id"] for n in na])
if __name__ == "__main__":
    main()
