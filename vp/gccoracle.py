"""System oracles used only at replay / reference-validation time (never as
the deciding step): gcc -E and gfortran -cpp -E."""
import os, shutil, subprocess, tempfile


def gcc_if(expr, defines=(), prelude=""):
    """True/False = which branch gcc selects for `#if expr`; None = gcc printed a diagnostic or is absent"""
    if not shutil.which("gcc"):
        return None
    d = tempfile.mkdtemp(prefix="vp_gcc_")
    try:
        p = os.path.join(d, "t.c")
        with open(p, "w") as f:
            f.write(prelude + "#if " + expr + "\nYES_BRANCH\n#else\nNO_BRANCH\n#endif\n")
        r = subprocess.run(["gcc", "-E", "-P"] + ["-D" + x for x in defines] + [p],
                           capture_output=True, text=True, timeout=20)
        if r.returncode != 0 or r.stderr.strip():
            return None
        return "YES_BRANCH" in r.stdout
    finally:
        shutil.rmtree(d, ignore_errors=True)


def gcc_lines(files, main, args=(), cwd=None):
    """Preprocess `main` (files: {relpath: text} materialised in a scratch dir) and return
    (set of (relpath, line) that survive, stderr) using a marker per line."""
    if not shutil.which("gcc"):
        return None, "no gcc"
    d = tempfile.mkdtemp(prefix="vp_gcc_")
    try:
        for rel, text in files.items():
            p = os.path.join(d, rel.lstrip("/"))
            os.makedirs(os.path.dirname(p), exist_ok=True)
            with open(p, "w") as f:
                f.write(text)
        r = subprocess.run(["gcc", "-E"] + list(args) + [main.lstrip("/")], capture_output=True, text=True,
                           timeout=30, cwd=os.path.join(d, (cwd or "").lstrip("/")) if cwd else d)
        return r.stdout, r.stderr
    finally:
        shutil.rmtree(d, ignore_errors=True)
