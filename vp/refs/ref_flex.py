"""Reference line classifier for free-form Fortran with C preprocessor lines
(Fortran 2018 6.3.2 + cpp's line orientation).  Independent of CBI's cleaner:
one pass per physical line with an explicit "character context carried over a
continuation" state.

classify(text) -> Result(counted, directives, ok)
  counted    : physical lines holding statement text, a directive sentinel
               comment (! [letters] $ ... as first non-blank) or a '#' line
  directives : sorted tuples of the counted lines of each '#' logical line
  ok         : False for texts outside the property: unterminated character
               literal, '&' alone on a line, continuation pending at end of
               file or across a '#' line, backslashes (cpp would splice them,
               Fortran gives them no meaning: the two readings disagree)
"""

from __future__ import annotations


class Result:
    def __init__(self):
        self.counted = set()
        self.directives = []
        self.ok = True
        self.why = ""


def _ws(c):
    return c == " " or c == "\t"


def _letter(c):
    o = ord(c)
    return 65 <= o <= 90 or 97 <= o <= 122


def classify(text):
    res = Result()
    lines = []
    cur = []
    for c in text:
        if c == "\n":
            lines.append(cur)
            cur = []
        else:
            cur.append(c)
    if cur:
        lines.append(cur)
    quote = None  # inside a character literal continued from the previous line
    continuing = False  # previous statement line ended with '&'
    for ln, chars in enumerate(lines, start=1):
        n = len(chars)
        i = 0
        while i < n and _ws(chars[i]):
            i += 1
        if i == n:
            continue  # blank line (allowed between continued lines)
        for c in chars:
            if c == "\\":
                res.ok = False
                res.why = "backslash"
                return res
        if chars[i] == "#":
            if quote is not None:
                res.ok = False
                res.why = "preprocessor line inside a continued character literal"
                return res
            # (a preprocessor line between the lines of a continued statement is ordinary: the directive is counted and
            # the continuation is still pending after it)
            res.counted.add(ln)
            res.directives.append((ln,))
            # a C comment opener / literal inside the directive could swallow following lines: keep to directives
            # without quotes, slashes (the conditional-selection programs use only such lines)
            for c in chars[i:]:
                if c == "/" or c == '"' or c == "'":
                    res.ok = False
                    res.why = "comment or literal characters in a # line (C05's subject)"
                    return res
            continue
        if quote is not None and chars[i] != "&":
            # F2018 6.3.2.4: a continued character context must resume with '&' as the first non-blank character
            res.ok = False
            res.why = "character context continued without a leading '&'"
            return res
        # sentinel / comment line
        if quote is None and chars[i] == "!":
            j = i + 1
            while j < n and _letter(chars[j]):
                j += 1
            if j < n and chars[j] == "$":
                res.counted.add(ln)  # directive sentinel: kept, and it does not end a pending continuation
            continue
        # statement text
        k = i
        if continuing and chars[k] == "&":
            k += 1  # optional leading '&' of a continuation line
            while quote is None and k < n and _ws(chars[k]):
                k += 1
            if k == n or (quote is None and chars[k] == "!"):
                # F2018 6.3.2.4: no line shall contain a single '&' as the only non-blank character, or as the only
                # non-blank character before a '!' that initiates a comment
                res.ok = False
                res.why = "'&' alone on a line"
                return res
        has_text = False
        amp = False  # last significant character so far is '&'
        while k < n:
            c = chars[k]
            if quote is not None:
                has_text = has_text or not _ws(c)
                if c == quote:
                    quote = None
                    amp = False
                elif c == "&":
                    # '&' as the last non-blank of the line continues the literal
                    m = k + 1
                    while m < n and _ws(chars[m]):
                        m += 1
                    if m == n:
                        amp = True
                        k = n
                        break
                k += 1
                continue
            if c == "!":
                break  # trailing comment
            if c == "'" or c == '"':
                quote = c
                has_text = True
                amp = False
            elif c == "&":
                amp = True
                has_text = True
            elif not _ws(c):
                amp = False
                has_text = True
            k += 1
        if not has_text:
            continue
        # '&' counts as a continuation mark only as the last non-blank before an optional comment
        if amp:
            only_amp = True
            for c in chars[i:k]:
                if not _ws(c) and c != "&":
                    only_amp = False
            if only_amp:
                res.ok = False
                res.why = "'&' alone on a line"
                return res
        if quote is not None and not amp:
            res.ok = False
            res.why = "unterminated character literal"
            return res
        res.counted.add(ln)
        continuing = amp
    if continuing or quote is not None:
        res.ok = False
        res.why = "continuation pending at end of file"
    return res
