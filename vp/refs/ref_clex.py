"""Reference line classifier for C/C++ source text (ISO C11 5.1.1.2 phases
2-3): splice backslash-newline, replace comments by one space, keep string
and character literals opaque.  Written as two passes over (char, physical
line) pairs - deliberately not as CBI's one-pass state stack.

classify(text) -> Result with
  counted    : set of physical lines that still hold a non-white-space
               character outside comments
  directives : list of sorted tuples - the counted lines of each logical
               line whose first token is '#'
  ok         : False if the text is not a valid sequence of preprocessing
               tokens and comments (unterminated literal or comment, stray
               backslash, missing final newline after a backslash)
Only uses ==, <, ord() on characters, so it runs on CrossHair symbolic
strings.
"""

from __future__ import annotations


class Result:
    def __init__(self):
        self.counted = set()
        self.directives = []
        self.ok = True
        self.why = ""


def _is_ws(c):
    return c == " " or c == "\t"


def classify(text):
    res = Result()
    if text[:1] == "\ufeff":
        text = text[1:]  # a byte-order mark at the start of a file is not part of the text (compilers skip it)
    # ---- phase 1/2: physical lines, splices ----
    chars = []  # (char, physical line); '\n' entries are logical newlines
    line = 1
    i = 0
    n = len(text)
    while i < n:
        c = text[i]
        if c == "\\" and i + 1 < n and text[i + 1] == "\n":
            if i + 2 == n:
                res.ok = False
                res.why = "backslash-newline at end of file"
                return res
            i += 2
            line += 1
            continue
        if c == "\\" and i + 1 == n:
            res.ok = False
            res.why = "backslash at end of file"
            return res
        chars.append((c, line))
        if c == "\n":
            line += 1
        i += 1
    if chars and chars[-1][0] != "\n":
        chars.append(("\n", line))  # a missing final newline is tolerated (gcc: no diagnostic by default for -E)
    # ---- phase 3: comments and literals ----
    # state: 0 code, 1 line comment, 2 block comment, 3 string, 4 char
    st = 0
    k = 0
    m = len(chars)
    cur_lines = set()  # counted lines of the current logical line
    first_tok_hash = None  # None: nothing but white space so far; True/False once the first token is seen
    while k < m:
        c, ln = chars[k]
        if st == 0:
            if c == "\n":
                if first_tok_hash:
                    res.directives.append(tuple(sorted(cur_lines)))
                cur_lines = set()
                first_tok_hash = None
                k += 1
            elif c == "/" and k + 1 < m and chars[k + 1][0] == "/":
                st = 1
                k += 2
            elif c == "/" and k + 1 < m and chars[k + 1][0] == "*":
                st = 2
                k += 2
            elif _is_ws(c):
                k += 1
            else:
                if first_tok_hash is None:
                    first_tok_hash = c == "#"
                res.counted.add(ln)
                cur_lines.add(ln)
                if c == '"':
                    st = 3
                elif c == "'":
                    st = 4
                elif c == "\\":
                    res.ok = False
                    res.why = "stray backslash"
                    return res
                k += 1
        elif st == 1:
            if c == "\n":
                st = 0  # the newline itself is handled in state 0
            else:
                k += 1
        elif st == 2:
            if c == "*" and k + 1 < m and chars[k + 1][0] == "/":
                st = 0
                k += 2
            else:
                k += 1
        else:  # literals
            q = '"' if st == 3 else "'"
            if c == "\n":
                res.ok = False
                res.why = "unterminated literal"
                return res
            if not _is_ws(c):
                res.counted.add(ln)
                cur_lines.add(ln)
            if c == "\\":
                # escape: the next character is taken literally (it cannot be a newline: that was a splice)
                if k + 1 < m and chars[k + 1][0] != "\n":
                    nc, nl = chars[k + 1]
                    if not _is_ws(nc):
                        res.counted.add(nl)
                        cur_lines.add(nl)
                    k += 2
                else:
                    res.ok = False
                    res.why = "backslash before newline inside literal"
                    return res
            elif c == q:
                if st == 4 and k > 0 and chars[k - 1][0] == "'" and (k < 2 or chars[k - 2][0] != "\\"):
                    # '' : empty character constant (gcc: error)
                    res.ok = False
                    res.why = "empty character constant"
                    return res
                st = 0
                k += 1
            else:
                k += 1
    if st == 2:
        res.ok = False
        res.why = "unterminated comment"
    return res
