"""Reference macro expander: Prosser's algorithm (the hide-set formulation in
the C89 rationale / X3J11 86-196), for object-like and function-like macros
with # , ## and __VA_ARGS__.  Tokens are (spelling, frozenset hide-set, preceded-by-white-space).

Deliberately recursive and list-copying - nothing like CBI's stack of token
streams.  Used natively (all inputs are concrete once the harness's symbolic
indices are decided).  `Invalid` marks inputs a conforming preprocessor
diagnoses (wrong argument count, unbalanced parentheses, ## producing an
invalid token, # without a parameter): outside the property.
"""

from __future__ import annotations


class Invalid(Exception):
    pass


EVENTS = []


class MacroDef:
    def __init__(self, name, params, body, variadic=False):
        self.name = name
        self.params = params  # None for object-like; list of names (the variadic one is '__VA_ARGS__')
        self.body = list(body)  # spellings
        self.variadic = variadic
        if params is not None:
            for i, t in enumerate(self.body):
                if t == "#" and (i + 1 >= len(self.body) or self.body[i + 1] not in params):
                    raise Invalid("# is not followed by a macro parameter")
        if self.body and (self.body[0] == "##" or self.body[-1] == "##"):
            raise Invalid("## at an end of the replacement list")


def _is_ident(s):
    return bool(s) and (s[0].isalpha() or s[0] == "_") and all(c.isalnum() or c == "_" for c in s)


def _is_number(s):
    return bool(s) and (s[0].isdigit() or (s[0] == "." and len(s) > 1 and s[1].isdigit())) and all(c.isalnum() or c in "._" for c in s)


_PUNCT = {"+", "-", "*", "/", "%", "(", ")", ",", "<", ">", "<=", ">=", "==", "!=", "&&", "||", "!", "~", "&", "|", "^", "<<", ">>", "?", ":",
          "=", "#", "##", ".", ";", "[", "]", "{", "}"}


def glue_spelling(a, b):
    s = a + b
    if _is_ident(s) or _is_number(s) or s in _PUNCT:
        return s
    if s.startswith('"') and s.endswith('"'):
        return s
    raise Invalid("pasting %r and %r does not give a valid preprocessing token" % (a, b))


def expand(ts, macros):
    """ts: list of (spelling, hideset) -> list of (spelling, hideset)"""
    out = []
    ts = list(ts)
    steps = 0
    while ts:
        steps += 1
        if steps > 20000:
            raise Invalid("runaway expansion")
        t, hs, ws = ts[0]
        rest = ts[1:]
        m = macros.get(t) if _is_ident(t) else None
        if m is None or t in hs:
            out.append((t, hs, ws))
            ts = rest
            continue
        if m.params is None:
            ts = subst(m.body, [], [], hs | {t}, macros) + rest
            continue
        if not rest or rest[0][0] != "(":
            out.append((t, hs, ws))
            ts = rest
            continue
        if hs and not rest[0][1]:
            # a function-like macro name produced by an expansion takes its argument list from the source that follows
            EVENTS.append(("rescan-with-following-source", t))
        # collect actuals
        depth = 0
        args = [[]]
        seps = []
        k = 1
        close_hs = None
        while k < len(rest):
            tok = rest[k]
            if tok[0] == "(":
                depth += 1
                args[-1].append(tok)
            elif tok[0] == ")":
                if depth == 0:
                    close_hs = tok[1]
                    break
                depth -= 1
                args[-1].append(tok)
            elif tok[0] == "," and depth == 0:
                args.append([])
                seps.append(tok)
            else:
                args[-1].append(tok)
            k += 1
        if close_hs is None:
            raise Invalid("unterminated argument list")
        after = rest[k + 1:]
        nparams = len(m.params)
        if m.variadic:
            named = nparams - 1
            if named == 0 and len(args) == 1 and not args[0]:
                args = []
            if len(args) < named:
                raise Invalid("too few arguments")
            va = []
            for j, a in enumerate(args[named:]):
                if j:
                    # the variable arguments keep the commas (and the white space before them) that separated them
                    va.append((",", seps[named + j - 1][1], seps[named + j - 1][2]))
                va.extend(a)
            actuals = args[:named] + [va]
        else:
            if nparams == 0:
                if not (len(args) == 1 and not args[0]):
                    raise Invalid("arguments given to a macro that takes none")
                actuals = []
            else:
                if len(args) != nparams:
                    raise Invalid("wrong number of arguments")
                actuals = args
        ts = subst(m.body, m.params, actuals, (hs & close_hs) | {t}, macros) + after
    return out


def stringize(arg):
    parts = []
    for i, (sp, _hs, ws) in enumerate(arg):
        # white space between the argument's tokens becomes one space; leading white space is dropped
        if i and ws:
            parts.append(" ")
        if sp.startswith('"') or sp.startswith("'"):
            parts.append(sp.replace("\\", "\\\\").replace('"', '\\"'))
        else:
            parts.append(sp)
    return '"' + "".join(parts) + '"'


_PLACEMARKER = ("", frozenset(), False)
_PASTE = object()  # the ## operator of the replacement list (a "##" spelled by an argument is an ordinary token)


def subst(body, params, actuals, hs, macros):
    """C11 6.10.3.1-3: phase 1 replaces parameters (operands of # and ## unexpanded, an empty operand of ## becomes a
    placemarker), phase 2 applies the ## operators from left to right, then placemarkers are dropped."""
    n = len(body)

    def is_param(tok):
        return tok in params if params else False

    def sel(tok):
        return actuals[params.index(tok)]

    items = []
    i = 0
    while i < n:
        t = body[i]
        nxt = body[i + 1] if i + 1 < n else None
        prv = body[i - 1] if i > 0 else None
        if t == "#" and params is not None and nxt is not None and is_param(nxt):
            items.append((stringize(sel(nxt)), frozenset(), True))
            i += 2
            continue
        if t == "##" and 0 < i < n - 1:
            items.append(_PASTE)
            i += 1
            continue
        if is_param(t):
            if nxt == "##" or prv == "##":
                a = list(sel(t))
                items.extend(a if a else [_PLACEMARKER])
            else:
                items.extend(expand(sel(t), macros))
            i += 1
            continue
        items.append((t, frozenset(), True))
        i += 1
    out = []
    j = 0
    while j < len(items):
        it = items[j]
        if it is _PASTE:
            lhs = out.pop()
            rhs = items[j + 1]
            if lhs is _PLACEMARKER:
                out.append(rhs)
            elif rhs is _PLACEMARKER:
                out.append(lhs)
            else:
                out.append((glue_spelling(lhs[0], rhs[0]), lhs[1] & rhs[1], lhs[2]))
            j += 2
            continue
        out.append(it)
        j += 1
    return [(sp, h | hs, w) for sp, h, w in out if sp != ""]  # (only a placemarker has an empty spelling)


def lex_ws(text):
    """[(spelling, preceded_by_white_space)] using the directive-operand lexer of ref_cpp"""
    from vp.refs import ref_cpp

    out = []
    i = 0
    toks = ref_cpp.lex(text)
    pos = 0
    for t in toks:
        j = text.index(t, pos)
        out.append((t, j > pos or (j > 0 and text[j - 1] in " \t")))
        pos = j + len(t)
    return out


def expand_spellings(tokens, macros):
    """tokens: list of spellings or of (spelling, ws)"""
    ts = [(t, frozenset(), False) if isinstance(t, str) else (t[0], frozenset(), t[1]) for t in tokens]
    return [tok[0] for tok in expand(ts, macros)]
