"""Reference conditional-inclusion preprocessor (ISO C11 6.10.1-6.10.3 for the
directive subset the scenarios use) over a vp.memfs.MemFS, with the include
search rules of gcc/clang:

  #include "f" : directory of the including file, then the -I list in order
  #include <f> : the -I list in order               (first existing file wins)
  -include f   : processed before the main file, searched like "f" from the
                 main file's directory (the scenarios only use spellings for
                 which gcc's and CBI's rule agree)

One physical line per logical line (splices/comments are C05's subject).
Returns for one translation unit the set of (realpath, line) the preprocessor
*reaches* - code lines it does not skip, and every directive line of every
conditional chain it reaches - plus the events it could not honour.

Anything gcc would diagnose (incompatible redefinition, #if without a
usable expression, #else after #else, unbalanced chains, missing include
when `missing_ok` is false, #error reached) raises Diagnostic: such programs
are outside the properties' quantifiers.
"""

from __future__ import annotations

import posixpath

from vp.refs import ref_expr


class Diagnostic(Exception):
    pass


def lex(text):
    """preprocessing tokens of a directive operand: identifiers, numbers, operators, strings"""
    out = []
    i, n = 0, len(text)
    ops2 = ("||", "&&", "<<", ">>", "<=", ">=", "==", "!=", "##")
    while i < n:
        c = text[i]
        if c in " \t":
            i += 1
        elif c.isalpha() or c == "_":
            j = i
            while j < n and (text[j].isalnum() or text[j] == "_"):
                j += 1
            out.append(text[i:j])
            i = j
        elif c.isdigit():
            j = i
            while j < n and (text[j].isalnum() or text[j] in "._"):
                j += 1
            out.append(text[i:j])
            i = j
        elif c in "\"'":
            # string literal / character constant: up to the matching quote, a backslash escapes the next character
            j = i + 1
            while j < n and text[j] != c:
                j += 2 if text[j] == "\\" else 1
            if j >= n:
                raise ValueError("unterminated literal")
            out.append(text[i:j + 1])
            i = j + 1
        elif text[i:i + 2] in ops2:
            out.append(text[i:i + 2])
            i += 2
        else:
            out.append(c)
            i += 1
    return out


def _is_ident(t):
    return bool(t) and (t[0].isalpha() or t[0] == "_")


class Macro:
    def __init__(self, body):
        self.body = list(body)  # object-like only


def parse_define_option(d):
    """-D option string -> (name, body tokens)"""
    if "=" in d:
        name, val = d.split("=", 1)
        return name, lex(val)
    return d, ["1"]


class TU:
    """one translation unit being preprocessed"""

    def __init__(self, fs, include_paths, defines, missing_ok=False, max_depth=50):
        self.fs = fs
        self.include_paths = list(include_paths)
        self.macros = {}
        for d in defines:
            name, body = parse_define_option(d)
            if name not in self.macros:  # gcc: later -D of the same name redefines (warning if different)
                self.macros[name] = Macro(body)
            elif self.macros[name].body != body:
                raise Diagnostic("-D redefinition")
        self.once = set()
        self.reached = set()  # (realpath, line)
        self.missing = []  # (realpath of includer, line, name, 'user'|'system')
        self.unknown = []  # (realpath, line, directive name)
        self.missing_ok = missing_ok
        self.max_depth = max_depth
        self.evaluated = []  # (realpath, line) of every #if/#elif whose condition was evaluated
        self.included = []  # (includer realpath, line, resolved realpath)

    # ---- macro expansion (object-like, with self-reference suppression) ----
    def expand(self, toks, hide=frozenset()):
        out = []
        i = 0
        while i < len(toks):
            t = toks[i]
            if t == "defined":
                j = i + 1
                if j < len(toks) and toks[j] == "(":
                    if j + 2 >= len(toks) or toks[j + 2] != ")" or not _is_ident(toks[j + 1]):
                        raise Diagnostic("bad defined()")
                    name = toks[j + 1]
                    i = j + 3
                else:
                    if j >= len(toks) or not _is_ident(toks[j]):
                        raise Diagnostic("bad defined")
                    name = toks[j]
                    i = j + 1
                out.append("1" if name in self.macros else "0")
                continue
            if _is_ident(t) and t in self.macros and t not in hide:
                out.extend(self.expand(self.macros[t].body, hide | {t}))
            else:
                out.append(t)
            i += 1
        return out

    def evaluate(self, text):
        toks = self.expand(lex(text))
        if not toks:
            raise Diagnostic("#if with no expression")
        rt = []
        for t in toks:
            if t[0].isdigit():
                try:
                    rt.append(ref_expr.literal(t))
                except (ref_expr.Malformed, ref_expr.Undefined, ValueError) as e:
                    raise Diagnostic("bad number %s" % t)
            elif t.startswith('"'):
                raise Diagnostic("string in #if")
            else:
                rt.append(t)
        try:
            v = ref_expr.evaluate(rt)
        except ref_expr.Malformed as e:
            raise Diagnostic("malformed #if: %s" % e)
        if v.ok is not True:
            raise Diagnostic("undefined #if arithmetic")
        return v.v != 0

    # ---- include resolution ----
    def resolve(self, name, includer_dir, system):
        dirs = ([] if system else [includer_dir]) + self.include_paths
        if name.startswith("/"):
            dirs = ["/"]  # an absolute name is opened as it is, in either form
        for d in dirs:
            # the path is tried as spelled: the file system walks it ('nodir/../x.h' leads nowhere when nodir does not
            # exist, 'link/..' is the parent of the link's target); only a path that opens is normalised
            cand = posixpath.join(d, name)
            if self.fs.isfile(cand):
                return self.fs.realpath(cand)
        return None

    def include_operand(self, text):
        text = text.strip()
        if text.startswith('"') and text.endswith('"') and len(text) >= 2:
            return text[1:-1], False
        if text.startswith("<") and text.endswith(">"):
            return text[1:-1].strip(), True
        # computed include: expand, then it must have one of the two forms
        toks = self.expand(lex(text))
        s = "".join(toks)
        if s.startswith('"') and s.endswith('"') and len(s) >= 2:
            return s[1:-1], False
        if s.startswith("<") and s.endswith(">"):
            return s[1:-1], True
        raise Diagnostic("#include expects \"FILENAME\" or <FILENAME>")

    # ---- the line processor ----
    def process(self, path, depth=0):
        if depth > self.max_depth:
            raise Diagnostic("#include nested too deeply")
        real = self.fs.realpath(path)
        text = self.fs.files[real]
        lines = text.split("\n")
        if lines and lines[-1] == "":
            lines.pop()
        # stack of [any_taken, currently_active, seen_else, parent_active]
        stack = []
        for ln, line in enumerate(lines, start=1):
            s = line.strip()
            active = all(fr[1] for fr in stack)
            if not s.startswith("#"):
                if s and active:
                    self.reached.add((real, ln))
                continue
            body = s[1:].strip()
            name = body.split(None, 1)[0] if body else ""
            # identifiers only
            k = 0
            while k < len(name) and (name[k].isalnum() or name[k] == "_"):
                k += 1
            rest = body[k:].strip()
            name = name[:k]
            if name in ("if", "ifdef", "ifndef"):
                if active:
                    self.reached.add((real, ln))
                    if name == "if":
                        self.evaluated.append((real, ln))
                        c = self.evaluate(rest)
                    else:
                        toks = lex(rest)
                        if len(toks) != 1 or not _is_ident(toks[0]):
                            raise Diagnostic("bad #" + name)
                        c = (toks[0] in self.macros) == (name == "ifdef")
                    stack.append([c, c, False, True])
                else:
                    stack.append([True, False, False, False])
            elif name == "elif":
                if not stack or stack[-1][2]:
                    raise Diagnostic("#elif without #if / after #else")
                fr = stack[-1]
                if fr[3] and all(f[1] for f in stack[:-1]):
                    self.reached.add((real, ln))
                    if fr[0]:
                        fr[1] = False
                    else:
                        self.evaluated.append((real, ln))
                        c = self.evaluate(rest)
                        fr[0] = fr[1] = c
            elif name == "else":
                if not stack or stack[-1][2]:
                    raise Diagnostic("#else without #if / after #else")
                fr = stack[-1]
                fr[2] = True
                if fr[3] and all(f[1] for f in stack[:-1]):
                    self.reached.add((real, ln))
                    fr[1] = not fr[0]
                    fr[0] = True
            elif name == "endif":
                if not stack:
                    raise Diagnostic("#endif without #if")
                fr = stack.pop()
                if fr[3] and all(f[1] for f in stack):
                    self.reached.add((real, ln))
            elif not active:
                continue
            elif name == "define":
                self.reached.add((real, ln))
                toks = lex(rest)
                if not toks or not _is_ident(toks[0]):
                    raise Diagnostic("bad #define")
                if rest[len(toks[0]):len(toks[0]) + 1] == "(":
                    raise Diagnostic("function-like macro: outside this reference")
                nm, bd = toks[0], toks[1:]
                if nm in self.macros and self.macros[nm].body != bd:
                    raise Diagnostic("incompatible redefinition of " + nm)
                self.macros[nm] = Macro(bd)
            elif name == "undef":
                self.reached.add((real, ln))
                toks = lex(rest)
                if len(toks) != 1 or not _is_ident(toks[0]):
                    raise Diagnostic("bad #undef")
                self.macros.pop(toks[0], None)
            elif name == "include":
                self.reached.add((real, ln))
                iname, system = self.include_operand(rest)
                tgt = self.resolve(iname, posixpath.dirname(real), system)
                if tgt is None:
                    if not self.missing_ok:
                        raise Diagnostic("missing include " + iname)
                    self.missing.append((real, ln, iname, "system" if system else "user"))
                else:
                    treal = self.fs.realpath(tgt)
                    self.included.append((real, ln, treal))
                    if treal not in self.once:
                        self.process(tgt, depth + 1)
            elif name == "pragma":
                self.reached.add((real, ln))
                if rest.split()[:1] == ["once"]:
                    self.once.add(real)
            elif name == "error":
                raise Diagnostic("#error reached")
            else:
                self.reached.add((real, ln))
                if name not in ("line", "warning"):
                    self.unknown.append((real, ln, name))
        if stack:
            raise Diagnostic("unterminated conditional")


def run_tu(fs, main, defines=(), include_paths=(), include_files=(), missing_ok=False):
    """preprocess one compile command; returns the TU (reached lines, events)"""
    tu = TU(fs, include_paths, defines, missing_ok)
    mdir = posixpath.dirname(fs.abspath(main))
    for inc in include_files:
        tgt = tu.resolve(inc, mdir, False)
        if tgt is None:
            if not missing_ok:
                raise Diagnostic("missing -include " + inc)
            continue
        if fs.realpath(tgt) in tu.once:
            continue  # a #pragma once header that an earlier forced include already brought in
        tu.process(tgt)
    tu.process(main)
    return tu


def run_platforms(fs, configuration, missing_ok=False):
    """configuration: {platform: [entry dicts as finder.find takes them]} ->
    {platform: set((realpath, line))}, plus the list of TUs"""
    out = {}
    tus = []
    for p, entries in configuration.items():
        acc = set()
        for e in entries:
            tu = run_tu(fs, e["file"], e["defines"], e["include_paths"], e["include_files"], missing_ok)
            acc |= tu.reached
            tus.append((p, e, tu))
        out[p] = acc
    return out, tus
