"""Reference semantics of #if expressions (ISO C11 6.10.1, 6.6, 6.5.x).

Written production by production from the C grammar (conditional-expression
down to primary-expression), *not* as precedence climbing.  Values are
(unsigned?, value) with intmax_t/uintmax_t = 64 bit.  Anything ISO C leaves
undefined or that gcc diagnoses (division by zero, shift count <0 or >=64,
signed overflow, left shift of a negative value) raises Undefined: such
inputs are outside the property.

Works on Python ints and - because it only uses + - * // % and comparisons on
its operands - on CrossHair symbolic ints too.
"""

from __future__ import annotations

M64 = 1 << 64
M63 = 1 << 63


class Undefined(Exception):
    pass


class Malformed(Exception):
    pass


class CVal:
    """u: is the type uintmax_t (always a concrete bool: types are static);
    v: value; ok: no undefined operation was *evaluated* to obtain it"""

    __slots__ = ("u", "v", "ok")

    def __init__(self, u, v, ok=True):
        self.u = u
        self.v = v
        self.ok = ok

    def __repr__(self):
        return "%s%s%s" % (self.v, "u" if self.u else "", "" if self.ok is True else "[ok=%s]" % (self.ok,))

    def truth(self):
        if self.ok is not True:
            raise Undefined()
        return self.v != 0


class PyAlg:
    """mathematical Python ints (also CrossHair symbolic ints)"""

    @staticmethod
    def const(n):
        return n

    @staticmethod
    def wrap_u(v):
        return v % M64

    @staticmethod
    def in_s(v):
        return -M63 <= v < M63

    @staticmethod
    def to_u(v):  # signed value -> unsigned representative
        return v % M64

    @staticmethod
    def to_s(v):  # 64-bit pattern (0..2^64) -> signed
        return v - M64 if v >= M63 else v

    @staticmethod
    def ite(c, a, b):
        return a if c else b

    AND = staticmethod(lambda *xs: all(xs))
    OR = staticmethod(lambda *xs: any(xs))
    NOT = staticmethod(lambda x: not x)
    IMP = staticmethod(lambda a, b: (not a) or b)
    add = staticmethod(lambda a, b: a + b)
    sub = staticmethod(lambda a, b: a - b)
    mul = staticmethod(lambda a, b: a * b)
    udiv = staticmethod(lambda a, b: a // b if b != 0 else 0)
    urem = staticmethod(lambda a, b: a % b if b != 0 else 0)

    @staticmethod
    def tdiv(a, b):
        if b == 0:
            return 0
        q = abs(a) // abs(b)
        return q if (a < 0) == (b < 0) else -q

    @staticmethod
    def s_arith(op, a, b):
        """signed (intmax_t) operation: (value, no-overflow flag)"""
        if op == "add":
            v = a + b
        elif op == "sub":
            v = a - b
        elif op == "mul":
            v = a * b
        elif op == "div":
            v = PyAlg.tdiv(a, b)
        elif op == "rem":
            q = PyAlg.tdiv(a, b)
            return a - q * b, PyAlg.in_s(q)  # INT64_MIN % -1: the quotient overflows
        elif op == "shl":
            v = PyAlg.shl(a, b)
        return v, PyAlg.in_s(v)

    lt = staticmethod(lambda a, b: a < b)
    le = staticmethod(lambda a, b: a <= b)
    ult = lt
    ule = le
    eq = staticmethod(lambda a, b: a == b)
    ashr = staticmethod(lambda a, b: a // (2 ** b) if 0 <= b < 64 else 0)
    shl = staticmethod(lambda a, b: a * (2 ** b) if 0 <= b < 64 else 0)
    shr = staticmethod(lambda a, b: a // (2 ** b) if 0 <= b < 64 else 0)
    band = staticmethod(lambda a, b: (a % M64) & (b % M64))
    bor = staticmethod(lambda a, b: (a % M64) | (b % M64))
    bxor = staticmethod(lambda a, b: (a % M64) ^ (b % M64))


class Sem:
    """C semantics over an algebra; all operations are total and carry `ok`"""

    def __init__(self, alg=PyAlg):
        self.A = alg

    def S(self, v, ok=True):
        return CVal(False, v, ok)

    def U(self, v, ok=True):
        return CVal(True, self.A.wrap_u(v), ok)

    def lit(self, n, unsigned=False):
        return CVal(unsigned, self.A.const(n), True)

    def _conv(self, a, b):
        A = self.A
        if a.u or b.u:
            return True, (a.v if a.u else A.to_u(a.v)), (b.v if b.u else A.to_u(b.v))
        return False, a.v, b.v

    def _b(self, c, ok):
        A = self.A
        return CVal(False, A.ite(c, A.const(1), A.const(0)), ok)

    def _s(self, op, x, y, ok):
        v, fits = self.A.s_arith(op, x, y)
        return CVal(False, v, self.A.AND(ok, fits))

    def binop(self, op, a, b):
        A = self.A
        ok = A.AND(a.ok, b.ok)
        z = A.const(0)
        if op in ("<<", ">>"):
            # each operand is promoted on its own; the result has the left operand's type
            cnt_ok = A.AND((A.le(z, b.v) if not b.u else True), (A.ult if b.u else A.lt)(b.v, A.const(64)))
            if op == "<<":
                if a.u:
                    return self.U(A.shl(a.v, b.v), A.AND(ok, cnt_ok))
                return self._s("shl", a.v, b.v, A.AND(ok, cnt_ok, A.le(z, a.v)))
            if a.u:
                return self.U(A.shr(a.v, b.v), A.AND(ok, cnt_ok))
            return self.S(A.ashr(a.v, b.v), A.AND(ok, cnt_ok))  # arithmetic (gcc/clang)
        if op == "&&":
            return self._b(A.AND(A.NOT(A.eq(a.v, z)), A.NOT(A.eq(b.v, z))),
                           A.AND(a.ok, A.IMP(A.NOT(A.eq(a.v, z)), b.ok)))
        if op == "||":
            return self._b(A.OR(A.NOT(A.eq(a.v, z)), A.NOT(A.eq(b.v, z))),
                           A.AND(a.ok, A.IMP(A.eq(a.v, z), b.ok)))
        u, x, y = self._conv(a, b)
        lt, le = (A.ult, A.ule) if u else (A.lt, A.le)
        if op in ("+", "-", "*"):
            name = {"+": "add", "-": "sub", "*": "mul"}[op]
            if u:
                return self.U({"+": A.add, "-": A.sub, "*": A.mul}[op](x, y), ok)
            return self._s(name, x, y, ok)
        if op in ("/", "%"):
            nz = A.NOT(A.eq(y, z))
            if u:
                return self.U(A.udiv(x, y) if op == "/" else A.urem(x, y), A.AND(ok, nz))
            return self._s("div" if op == "/" else "rem", x, y, A.AND(ok, nz))
        if op == "<":
            return self._b(lt(x, y), ok)
        if op == "<=":
            return self._b(le(x, y), ok)
        if op == ">":
            return self._b(lt(y, x), ok)
        if op == ">=":
            return self._b(le(y, x), ok)
        if op == "==":
            return self._b(A.eq(x, y), ok)
        if op == "!=":
            return self._b(A.NOT(A.eq(x, y)), ok)
        if op in ("&", "|", "^"):
            f = {"&": A.band, "|": A.bor, "^": A.bxor}[op]
            r = f(x, y)  # on the 64-bit patterns
            if u:
                return self.U(r, ok)
            return CVal(False, A.to_s(r), ok)
        raise Malformed(op)

    def unop(self, op, a):
        A = self.A
        z = A.const(0)
        if op == "+":
            return a
        if op == "-":
            return self.U(A.sub(z, a.v), a.ok) if a.u else self._s("sub", z, a.v, a.ok)
        if op == "!":
            return self._b(A.eq(a.v, z), a.ok)
        if op == "~":
            if a.u:
                return self.U(A.sub(A.const(M64 - 1), a.v), a.ok)
            return self._s("sub", A.const(-1), a.v, a.ok)
        raise Malformed(op)

    def ternary(self, c, t, f):
        """the result has the common type of both branches; only the selected one is evaluated"""
        A = self.A
        z = A.const(0)
        cz = A.eq(c.v, z)
        ok = A.AND(c.ok, A.IMP(A.NOT(cz), t.ok), A.IMP(cz, f.ok))
        if t.u or f.u:
            tv = t.v if t.u else A.to_u(t.v)
            fv = f.v if f.u else A.to_u(f.v)
            return CVal(True, A.ite(cz, fv, tv), ok)
        return CVal(False, A.ite(cz, f.v, t.v), ok)


PY = Sem(PyAlg)


def S(v):
    if not (-M63 <= v < M63):
        raise Undefined("signed overflow")
    return PY.S(v)


def U(v):
    return PY.U(v)


def binop(op, a, b):
    return PY.binop(op, a, b)


def unop(op, a):
    return PY.unop(op, a)


# --------------------------------------------------------------------------
# literals (C11 6.4.4.1 + gcc binary literals), character constants

_SIMPLE_ESC = {"n": 10, "t": 9, "r": 13, "0": 0, "a": 7, "b": 8, "f": 12, "v": 11, "\\": 92, "'": 39, '"': 34, "?": 63}


def literal(text):
    t = text
    low = t.lower()
    base = 10
    digits = t
    if low.startswith("0x"):
        base, digits = 16, t[2:]
    elif low.startswith("0b"):
        base, digits = 2, t[2:]
    elif len(t) > 1 and t[0] == "0":
        base, digits = 8, t[1:]
    # suffix: u, l, ll in either order, l's same case
    i = len(digits)
    alphabet = "0123456789abcdef"[:base] if base != 16 else "0123456789abcdef"
    j = 0
    while j < i and digits[j].lower() in alphabet:
        j += 1
    body, suf = digits[:j], digits[j:]
    if body == "" and not (base == 8):
        raise Malformed("no digits")
    valid = {"", "u", "l", "ul", "lu", "ll", "ull", "llu"}
    sl = suf.lower()
    if sl not in valid or ("ll" in sl and "lL" in suf.replace("u", "").replace("U", "")) or (
            "ll" in sl and "Ll" in suf.replace("u", "").replace("U", "")):
        raise Malformed("bad suffix " + suf)
    v = int(body, base) if body else 0
    if v >= M64:
        raise Undefined("too large")
    unsigned = "u" in sl
    if not unsigned and v >= M63:
        if base == 10:
            raise Undefined("decimal constant too large for intmax_t (gcc warns)")
        unsigned = True
    return CVal(unsigned, v)


def charconst(body):
    """body = text between the quotes"""
    if len(body) == 1 and body != "\\" and body != "'":
        return S(ord(body))
    if body[:1] == "\\":
        r = body[1:]
        if r in _SIMPLE_ESC and r != "0":
            return S(_SIMPLE_ESC[r])
        if r[:1] == "x" and len(r) > 1:
            v = int(r[1:], 16)
            if v > 255:
                raise Undefined("hex escape out of range")
            return S(v - 256 if v >= 128 else v)  # plain char is signed on x86-64 gcc
        if r and all(c in "01234567" for c in r) and len(r) <= 3:
            v = int(r, 8)
            if v > 255:
                raise Undefined("octal escape out of range")
            return S(v - 256 if v >= 128 else v)
    raise Malformed("char constant " + body)


# --------------------------------------------------------------------------
# recursive-descent evaluator over a token list.  A token is a str (operator /
# punctuator / identifier spelling) or an already evaluated CVal operand.

_LEVELS = [
    ["||"],
    ["&&"],
    ["|"],
    ["^"],
    ["&"],
    ["==", "!="],
    ["<", "<=", ">", ">="],
    ["<<", ">>"],
    ["+", "-"],
    ["*", "/", "%"],
]


class _P:
    def __init__(self, toks, defined=None, sem=PY):
        self.t = toks
        self.i = 0
        self.defined = defined or (lambda name: False)
        self.sem = sem

    def peek(self):
        return self.t[self.i] if self.i < len(self.t) else None

    def next(self):
        x = self.peek()
        self.i += 1
        return x

    # conditional-expression: logical-OR-expression [? expression : conditional-expression]
    def conditional(self):
        c = self.level(0)
        if self.peek() == "?":
            self.next()
            t = self.conditional()
            if self.next() != ":":
                raise Malformed("expected :")
            f = self.conditional()
            return self.sem.ternary(c, t, f)
        return c

    # the ten left-associative binary levels, one production each
    def level(self, k):
        if k == len(_LEVELS):
            return self.unary()
        a = self.level(k + 1)
        while isinstance(self.peek(), str) and self.peek() in _LEVELS[k]:
            op = self.next()
            b = self.level(k + 1)
            a = self.sem.binop(op, a, b)
        return a

    def unary(self):
        t = self.peek()
        if isinstance(t, str) and t in ("+", "-", "!", "~"):
            self.next()
            a = self.unary()
            return self.sem.unop(t, a)
        return self.primary()

    def primary(self):
        t = self.next()
        if t is None:
            raise Malformed("unexpected end")
        if isinstance(t, CVal):
            return t
        if t == "(":
            v = self.conditional()
            if self.next() != ")":
                raise Malformed("expected )")
            return v
        if t == "defined":
            n = self.next()
            if n == "(":
                n = self.next()
                if self.next() != ")":
                    raise Malformed("expected )")
            if not _is_ident(n):
                raise Malformed("defined needs identifier")
            return self.sem.lit(1 if self.defined(n) else 0)
        if _is_ident(t):
            return self.sem.lit(0)
        raise Malformed("unexpected %r" % (t,))


def _is_ident(t):
    return isinstance(t, str) and t != "" and (t[0].isalpha() or t[0] == "_") and all(c.isalnum() or c == "_" for c in t)


def evaluate(tokens, defined=None, sem=PY):
    """tokens: list of str | CVal.  Returns CVal (check .ok); raises Malformed."""
    p = _P(list(tokens), defined, sem)
    v = p.conditional()
    if p.peek() is not None:
        raise Malformed("trailing tokens")
    return v


# --------------------------------------------------------------------------
# a tokenizer for concrete expression text (used for replays and translator
# validation, never under the solver)

_OPS3 = ["||", "&&", "<<", ">>", "<=", ">=", "==", "!="]


def tokenize(text):
    out = []
    i = 0
    n = len(text)
    while i < n:
        c = text[i]
        if c in " \t":
            i += 1
        elif c.isdigit():
            j = i
            while j < n and (text[j].isalnum() or text[j] in "._"):
                j += 1
            out.append(literal(text[i:j]))
            i = j
        elif c == "'":
            j = i + 1
            while j < n and text[j] != "'":
                j += 2 if text[j] == "\\" else 1
            out.append(charconst(text[i + 1:j]))
            i = j + 1
        elif c.isalpha() or c == "_":
            j = i
            while j < n and (text[j].isalnum() or text[j] == "_"):
                j += 1
            out.append(text[i:j])
            i = j
        elif text[i:i + 2] in _OPS3:
            out.append(text[i:i + 2])
            i += 2
        elif c in "+-*/%<>&|^!~?:()":
            out.append(c)
            i += 1
        else:
            raise Malformed("character %r" % c)
    return out


def truth_of_text(text, defined=None):
    return evaluate(tokenize(text), defined).truth()
