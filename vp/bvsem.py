"""E3 - bit-vector engine for the #if operator semantics.

* ``BVAlg``: the algebra that turns vp.refs.ref_expr.Sem (ISO C) into 64-bit
  z3 bit-vector terms, with z3's overflow predicates for "undefined".
* ``explore``: runs real code (the evaluator's operator functions, or the
  whole precedence-climbing parser with ``term`` stubbed) on vp.npshim
  scalars whose payload is a symbolic bit-vector; every truth test on a
  symbolic value forks, each fork being a z3 feasibility query.
* ``solve``: the query ladder  z3 (W bits) -> cvc5 bv-as-int -> narrower W.
"""

from __future__ import annotations

import os
import shutil
import subprocess
import tempfile
import time

import z3

from vp import npshim

W = 64  # operand width; narrowed (and reported) only by the ladder


class Stats:
    queries = 0
    solver_s = 0.0


def check(assertions, timeout_ms=30000):
    s = z3.Solver()
    s.set("timeout", timeout_ms)
    s.add(*assertions)
    t = time.time()
    r = s.check()
    Stats.queries += 1
    Stats.solver_s += time.time() - t
    return str(r), (s.model() if str(r) == "sat" else None), s


def check_cvc5(assertions, timeout_s=60, as_int=True):
    """second back end on the same SMT-LIB text"""
    exe = shutil.which("cvc5")
    if not exe:
        return "unknown"
    s = z3.Solver()
    s.add(*assertions)
    text = "(set-logic QF_BV)\n" + s.to_smt2()
    # z3 prints its internal "divisor known non-zero" variants; they coincide with the SMT-LIB operators there
    for nm in ("bvsrem", "bvsdiv", "bvudiv", "bvurem", "bvsmod"):
        text = text.replace(nm + "_i", nm)
    d = tempfile.mkdtemp(prefix="vp_cvc5_")
    try:
        p = os.path.join(d, "q.smt2")
        with open(p, "w") as f:
            f.write(text)
        cmd = [exe, "--tlimit=%d" % (timeout_s * 1000)]
        if as_int:
            cmd.append("--solve-bv-as-int=sum")
        t = time.time()
        try:
            r = subprocess.run(cmd + [p], capture_output=True, text=True, timeout=timeout_s + 10)
            out = r.stdout.strip().splitlines()
        except subprocess.TimeoutExpired:
            out = []
        Stats.queries += 1
        Stats.solver_s += time.time() - t
        if any("(error" in l for l in out):
            return "unknown"
        for l in out:
            if l.strip() in ("sat", "unsat"):
                return l.strip()
        return "unknown"
    finally:
        shutil.rmtree(d, ignore_errors=True)


# --------------------------------------------------------------------------
# ISO C over bit-vectors


class BVAlg:
    @staticmethod
    def const(n):
        return z3.BitVecVal(n % (1 << W), W)

    wrap_u = staticmethod(lambda v: v)
    to_u = staticmethod(lambda v: v)
    to_s = staticmethod(lambda v: v)

    @staticmethod
    def in_s(v):
        return z3.BoolVal(True)

    ite = staticmethod(lambda c, a, b: z3.If(c, a, b))

    @staticmethod
    def AND(*xs):
        xs = [z3.BoolVal(x) if isinstance(x, bool) else x for x in xs]
        return z3.And(*xs)

    @staticmethod
    def OR(*xs):
        xs = [z3.BoolVal(x) if isinstance(x, bool) else x for x in xs]
        return z3.Or(*xs)

    @staticmethod
    def NOT(x):
        return z3.Not(z3.BoolVal(x) if isinstance(x, bool) else x)

    @staticmethod
    def IMP(a, b):
        a = z3.BoolVal(a) if isinstance(a, bool) else a
        b = z3.BoolVal(b) if isinstance(b, bool) else b
        return z3.Implies(a, b)

    add = staticmethod(lambda a, b: a + b)
    sub = staticmethod(lambda a, b: a - b)
    mul = staticmethod(lambda a, b: a * b)
    udiv = staticmethod(lambda a, b: z3.UDiv(a, b))
    urem = staticmethod(lambda a, b: z3.URem(a, b))
    lt = staticmethod(lambda a, b: a < b)
    le = staticmethod(lambda a, b: a <= b)
    ult = staticmethod(lambda a, b: z3.ULT(a, b))
    ule = staticmethod(lambda a, b: z3.ULE(a, b))
    eq = staticmethod(lambda a, b: a == b)
    shl = staticmethod(lambda a, b: a << b)
    shr = staticmethod(lambda a, b: z3.LShR(a, b))
    ashr = staticmethod(lambda a, b: a >> b)
    band = staticmethod(lambda a, b: a & b)
    bor = staticmethod(lambda a, b: a | b)
    bxor = staticmethod(lambda a, b: a ^ b)

    @staticmethod
    def s_arith(op, a, b):
        mn = z3.BitVecVal(1 << (W - 1), W)
        if op == "add":
            return a + b, z3.And(z3.BVAddNoOverflow(a, b, True), z3.BVAddNoUnderflow(a, b))
        if op == "sub":
            return a - b, z3.And(z3.BVSubNoOverflow(a, b), z3.BVSubNoUnderflow(a, b, True))
        if op == "mul":
            return a * b, z3.And(z3.BVMulNoOverflow(a, b, True), z3.BVMulNoUnderflow(a, b))
        if op == "div":
            return a / b, z3.Not(z3.And(a == mn, b == -1))
        if op == "rem":
            return z3.SRem(a, b), z3.Not(z3.And(a == mn, b == -1))
        if op == "shl":
            r = a << b
            return r, z3.And(r >= 0, (r >> b) == a)
        raise ValueError(op)


def c_sem():
    from vp.refs import ref_expr

    return ref_expr.Sem(BVAlg)


# --------------------------------------------------------------------------
# forking executor for code running on npshim/Z3BV scalars


class Inconclusive(Exception):
    pass


class _Ctx:
    def __init__(self, prefix, base):
        self.prefix = prefix
        self.decisions = []
        self.pc = list(base)
        self.alts = []

    def decide(self, cond) -> bool:
        if isinstance(cond, bool):
            return cond
        cond = z3.simplify(cond)
        if z3.is_true(cond):
            return True
        if z3.is_false(cond):
            return False
        i = len(self.decisions)
        if i < len(self.prefix):
            d = self.prefix[i]
        else:
            rt, _, _ = check(self.pc + [cond], 20000)
            rf, _, _ = check(self.pc + [z3.Not(cond)], 20000)
            if "unknown" in (rt, rf):
                raise Inconclusive("feasibility unknown")
            if rt == "sat" and rf == "sat":
                d = True
                self.alts.append(self.decisions + [False])
            else:
                d = rt == "sat"
        self.decisions.append(d)
        self.pc.append(cond if d else z3.Not(cond))
        return d


class Leaf:
    def __init__(self, pc, kind, value, exc=None):
        self.pc = pc
        self.kind = kind  # 'i64' | 'u64' | 'bool' | 'pybool' | 'pyint' | 'f64' | 'exc'
        self.value = value  # BV term (i64/u64), z3 Bool (bool), python value
        self.exc = exc


def explore(thunk, base=(), max_leaves=64):
    leaves = []
    stack = [[]]
    npshim.use(npshim.Z3BV)
    while stack:
        prefix = stack.pop()
        ctx = _Ctx(prefix, list(base))
        npshim.Z3BV.ctx = ctx
        try:
            r = thunk()
            if isinstance(r, npshim._Int):
                leaf = Leaf(ctx.pc, r.kind, r.v)
            elif isinstance(r, npshim.bool_):
                leaf = Leaf(ctx.pc, "bool", r.c)
            elif isinstance(r, npshim.float64):
                leaf = Leaf(ctx.pc, "f64", None)
            elif isinstance(r, bool):
                leaf = Leaf(ctx.pc, "pybool", r)
            elif isinstance(r, int):
                leaf = Leaf(ctx.pc, "pyint", r)
            else:
                leaf = Leaf(ctx.pc, "exc", None, "returned " + type(r).__name__)
        except (Inconclusive, npshim.Unmodelled):
            raise
        except Exception as e:
            leaf = Leaf(ctx.pc, "exc", None, type(e).__name__ + ": " + str(e)[:100])
        finally:
            npshim.Z3BV.ctx = None
        leaves.append(leaf)
        stack.extend(ctx.alts)
        if len(leaves) > max_leaves:
            raise Inconclusive("too many leaves")
    return leaves


def bv_value(model, term):
    v = model.eval(term, model_completion=True).as_long()
    return v


def to_signed(v, w=None):
    w = w or W
    return v - (1 << w) if v >= (1 << (w - 1)) else v
