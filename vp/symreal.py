"""E2 - a small symbolic executor for the float formulas in codebasin.report.

The *real* function objects from /repo's current ``codebasin/report.py`` are
executed on operator-overloading symbolic numbers.  A number is an exact
fraction ``num/den`` of z3 integer polynomials over the symbolic line counts
(IEEE rounding is outside the claim).  Every branch on a symbolic condition
and every division (``den == 0`` raises ZeroDivisionError exactly as Python
does for int and float operands) forks; forks are explored depth-first by
re-execution under a decision prefix, each feasibility test being a z3 query.
The result of ``explore`` is the list of leaves (path condition, outcome); a
property is then one ``unsat`` query per leaf, built by the harness.

The only names rebound in the module under test are ``float`` (so that
``float(total)`` keeps its operand symbolic and ``float("nan")`` is a
distinguished NaN) - recorded as a stub in the evidence.
"""

from __future__ import annotations

import math
import time

import z3

NAN = float("nan")


class Stats:
    queries = 0
    solver_s = 0.0


def _check(solver_assertions, timeout_ms=20000):
    s = z3.Solver()
    s.set("timeout", timeout_ms)
    for a in solver_assertions:
        s.add(a)
    t = time.time()
    r = s.check()
    Stats.queries += 1
    Stats.solver_s += time.time() - t
    return str(r), s


class _Ctx:
    counter = 0

    def __init__(self, prefix, base):
        self.prefix = prefix
        self.decisions = []
        self.pc = list(base)
        self.alts = []
        self.nq = 0
        self.names = {}
        self.quotients = []
        _Ctx.counter += 1
        self.uid = _Ctx.counter

    def decide(self, cond) -> bool:
        cond = z3.simplify(cond)
        if z3.is_true(cond):
            return True
        if z3.is_false(cond):
            return False
        i = len(self.decisions)
        if i < len(self.prefix):
            d = self.prefix[i]
        else:
            rt, _ = _check(self.pc + [cond])
            rf, _ = _check(self.pc + [z3.Not(cond)])
            if rt == "unknown" or rf == "unknown":
                raise Inconclusive("feasibility unknown for %s" % cond)
            if rt == "sat" and rf == "sat":
                d = True
                self.alts.append(self.decisions + [False])
            elif rt == "sat":
                d = True
            else:
                d = False
        self.decisions.append(d)
        self.pc.append(cond if d else z3.Not(cond))
        return d


class Inconclusive(Exception):
    pass


_CTX: _Ctx | None = None


def _lift(x):
    if isinstance(x, Sym):
        return x
    if isinstance(x, bool):
        x = int(x)
    if isinstance(x, int):
        return Sym(z3.RealVal(x), z3.RealVal(1))
    if isinstance(x, float):
        if math.isnan(x):
            return None
        if x == int(x):
            return Sym(z3.RealVal(int(x)), z3.RealVal(1))
        from fractions import Fraction

        f = Fraction(x)
        return Sym(z3.RealVal(f.numerator), z3.RealVal(f.denominator))
    if isinstance(x, z3.ArithRef):
        return Sym(x, z3.RealVal(1))
    raise TypeError("cannot lift %r" % (x,))


class SymBool:
    def __init__(self, e):
        self.e = e

    def __bool__(self):
        return _CTX.decide(self.e)


def _one(e):
    return z3.is_rational_value(e) and e.as_fraction() == 1


class Sym:
    """exact fraction num/den, den > 0 on the current path"""

    __slots__ = ("num", "den")

    def __init__(self, num, den):
        self.num = num
        self.den = den

    # arithmetic -----------------------------------------------------------
    def _const(self):
        return z3.is_rational_value(z3.simplify(self.num)) and z3.is_rational_value(z3.simplify(self.den))

    def _named(self):
        """Replace a fraction with a symbolic denominator by a named quotient
        q (q * den == num, den > 0 on this path) so that sums of fractions
        with different denominators stay linear in the q's instead of being
        cross-multiplied.  Sign/range facts the path condition already
        implies for num/den are handed to the solver as lemmas about q."""
        if z3.is_rational_value(z3.simplify(self.den)):
            return self
        ctx = _CTX
        key = (self.num.get_id(), self.den.get_id())
        if key in ctx.names:
            return ctx.names[key]
        ctx.nq += 1
        q = z3.Real("q%d_%d" % (ctx.uid, ctx.nq))
        ctx.pc.append(q * self.den == self.num)
        ctx.quotients.append((q, self.num, self.den))
        r, _ = _check(ctx.pc + [z3.Not(z3.And(self.num >= 0, self.den > 0))], 5000)
        if r == "unsat":
            ctx.pc.append(q >= 0)
            r, _ = _check(ctx.pc + [z3.Not(self.num <= self.den)], 5000)
            if r == "unsat":
                ctx.pc.append(q <= 1)
        out = Sym(q, z3.RealVal(1))
        ctx.names[key] = out
        return out

    def _bin(self, other, op, swap=False):
        o = _lift(other)
        if o is None:
            return NAN
        a, b = (o, self) if swap else (self, o)
        if op in "+-":
            if not a.den.eq(b.den) and not (a._const() or b._const()):
                a, b = a._named(), b._named()
            if a.den.eq(b.den):
                n = a.num + b.num if op == "+" else a.num - b.num
                return Sym(z3.simplify(n), a.den)
            n1, n2 = a.num * b.den, b.num * a.den
            return Sym(z3.simplify(n1 + n2 if op == "+" else n1 - n2), z3.simplify(a.den * b.den))
        if op == "*":
            if not (a._const() or b._const()):
                a, b = a._named(), b._named()
            return Sym(z3.simplify(a.num * b.num), z3.simplify(a.den * b.den))
        if op == "/":
            if _CTX.decide(b.num == 0):
                raise ZeroDivisionError("symbolic division by zero")
            if not b._const():
                # keep the quotient as one lazy fraction when that stays linear
                if not (z3.is_rational_value(z3.simplify(a.den)) and z3.is_rational_value(z3.simplify(b.den))):
                    a, b = a._named(), b._named()
            if _CTX.decide(b.num > 0):
                return Sym(z3.simplify(a.num * b.den), z3.simplify(a.den * b.num))
            return Sym(z3.simplify(-(a.num * b.den)), z3.simplify(-(a.den * b.num)))
        raise TypeError(op)

    def __add__(self, o):
        return self._bin(o, "+")

    def __radd__(self, o):
        return self._bin(o, "+", True)

    def __sub__(self, o):
        return self._bin(o, "-")

    def __rsub__(self, o):
        return self._bin(o, "-", True)

    def __mul__(self, o):
        return self._bin(o, "*")

    def __rmul__(self, o):
        return self._bin(o, "*", True)

    def __truediv__(self, o):
        return self._bin(o, "/")

    def __rtruediv__(self, o):
        return self._bin(o, "/", True)

    def __neg__(self):
        return Sym(-self.num, self.den)

    def __pos__(self):
        return self

    # comparisons ----------------------------------------------------------
    def _cmp(self, other, f):
        o = _lift(other)
        if o is None:
            return False
        return SymBool(f(self.num * o.den, o.num * self.den))

    def __eq__(self, o):
        return self._cmp(o, lambda a, b: a == b)

    def __ne__(self, o):
        return self._cmp(o, lambda a, b: a != b)

    def __lt__(self, o):
        return self._cmp(o, lambda a, b: a < b)

    def __le__(self, o):
        return self._cmp(o, lambda a, b: a <= b)

    def __gt__(self, o):
        return self._cmp(o, lambda a, b: a > b)

    def __ge__(self, o):
        return self._cmp(o, lambda a, b: a >= b)

    def __bool__(self):
        return _CTX.decide(self.num != 0)

    __hash__ = None

    def __repr__(self):
        return "Sym(%s / %s)" % (self.num, self.den)


def symfloat(x=0.0):
    """stand-in for the name ``float`` inside the module under test"""
    if isinstance(x, Sym):
        return x
    return float(x)


class Leaf:
    def __init__(self, pc, kind, value, quotients=()):
        self.pc = pc
        self.kind = kind  # 'num' | 'nan' | 'exc'
        self.value = value
        self.quotients = list(quotients)  # (q, num, den) for every named quotient of this path


def explore(thunk, base, max_leaves=256):
    """Run `thunk()` under every feasible decision sequence."""
    global _CTX
    leaves = []
    stack = [[]]
    while stack:
        prefix = stack.pop()
        ctx = _Ctx(prefix, base)
        _CTX = ctx
        try:
            try:
                r = thunk()
                if isinstance(r, float) and math.isnan(r):
                    leaf = Leaf(ctx.pc, "nan", None)
                else:
                    leaf = Leaf(ctx.pc, "num", _lift(r))
            except ZeroDivisionError as e:
                leaf = Leaf(ctx.pc, "exc", "ZeroDivisionError")
            except Inconclusive:
                raise
            except Exception as e:  # any other escape is an outcome too
                leaf = Leaf(ctx.pc, "exc", type(e).__name__ + ": " + str(e)[:80])
        finally:
            _CTX = None
        leaf.quotients = list(ctx.quotients)
        leaves.append(leaf)
        stack.extend(ctx.alts)
        if len(leaves) > max_leaves:
            raise Inconclusive("too many leaves")
    return leaves


def _is_linear(e):
    if z3.is_app(e):
        if e.decl().kind() == z3.Z3_OP_MUL:
            nonconst = [c for c in e.children() if not z3.is_rational_value(c) and not z3.is_int_value(c)]
            if len(nonconst) > 1:
                return False
        if e.decl().kind() in (z3.Z3_OP_DIV, z3.Z3_OP_IDIV, z3.Z3_OP_MOD, z3.Z3_OP_POWER):
            return False
        return all(_is_linear(c) for c in e.children())
    return True


def prove(pc, claim, timeout_ms=30000):
    """('unsat'|'sat'|'unknown', model-or-None) for  pc & not claim.

    First the query is posed with only the *linear* hypotheses (weakening the
    hypotheses is sound for 'unsat'); only if that is not enough the full,
    nonlinear path condition is used, and only a model of the full query is
    ever returned as a counterexample."""
    pc = [z3.simplify(c) for c in pc]
    lin = [c for c in pc if _is_linear(c)]
    if len(lin) < len(pc):
        r, _ = _check(lin + [z3.Not(claim)], 5000)
        if r == "unsat":
            return r, None
    r, s = _check(list(pc) + [z3.Not(claim)], timeout_ms)
    if r == "sat":
        return r, s.model()
    return r, None


def prove_all(pc, hyps, goals, timeout_ms=30000):
    """prove each goal separately from pc + hyps; returns the first non-unsat
    verdict (with a model of  pc & hyps & not goal  when sat)."""
    for g in goals:
        r, m = prove(list(pc) + list(hyps), g, timeout_ms)
        if r != "unsat":
            return r, m
    return "unsat", None


def quotient_lemmas(pc, qa, qb, timeout_ms=3000):
    """equalities q == q' between named quotients of two runs that z3 can prove one pair at a time (each is a tiny
    nonlinear query); they make the final comparison of two sums of quotients linear"""
    out = []
    for (q1, n1, d1) in qa:
        for (q2, n2, d2) in qb:
            r, _ = _check(list(pc) + [q1 != q2], timeout_ms)
            if r == "unsat":
                out.append(q1 == q2)
                break
    return out
