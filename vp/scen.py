"""Scenario plumbing shared by the multi-file harnesses (C01, C04, C08, C10,
C15, C17, C18): build a MemFS from line lists, run the real finder.find on
it, extract the per-line attribution, compare with vp.refs.ref_cpp, and - for
replays - materialise the same tree on disk and run the unpatched public
path plus gcc -E.
"""

from __future__ import annotations

import os
import posixpath
import shutil
import subprocess
import tempfile

from vp import memfs
from vp.refs import ref_cpp


def build_fs(files, links=None, cwd="/r", maybe=None):
    """files: {abs path: [lines]}; a line '@' is a code line, replaced by a unique token"""
    fs = memfs.MemFS(cwd)
    for path, lines in files.items():
        out = []
        tag = path.strip("/").replace("/", "_").replace(".", "_").replace("-", "_").replace("+", "p")
        for i, l in enumerate(lines, start=1):
            out.append(l.replace("@", "x_%s_%d;" % (tag, i)) if "@" in l else l)
        fs.add(path, out)
    for p, t in (links or {}).items():
        fs.symlink(p, t)
    for p, b in (maybe or {}).items():
        fs.maybe[posixpath.normpath(p)] = b
    return fs


def entry(file, defines=(), include_paths=(), include_files=()):
    return dict(file=file, defines=list(defines), include_paths=list(include_paths), include_files=list(include_files))


def run_cbi(fs, configuration, members, rootdir="/r", loggers=True):
    """real finder.find on the mounted MemFS -> (state, recorder)"""
    import codebasin.finder as finder

    with memfs.mounted(fs, loggers=loggers) as rec:
        cb = memfs.FakeCodeBase(members, [rootdir])
        state = finder.find(rootdir, cb, configuration, summarize_only=True, show_progress=False)
    return state, rec


def attribution(state):
    """{platform: set((realpath, line))} from the ParserState, plus the multiset check that no line is in
    two nodes of one file"""
    from codebasin.preprocessor import CodeNode

    out = {}
    dup = []
    for fn, tree in state.trees.items():
        amap = state.maps[fn]
        seen = set()
        for node in tree.walk():
            if isinstance(node, CodeNode):
                for ln in node.lines:
                    if ln in seen:
                        dup.append((fn, ln))
                    seen.add(ln)
                    for p in amap[node]:
                        out.setdefault(p, set()).add((fn, ln))
    return out, dup


def counted_lines(state):
    from codebasin.preprocessor import CodeNode

    out = set()
    for fn, tree in state.trees.items():
        for node in tree.walk():
            if isinstance(node, CodeNode):
                for ln in node.lines:
                    out.add((fn, ln))
    return out


def compare(state, expected, platforms):
    """None if CBI's attribution equals `expected` ({platform: set}) on every parsed file, else a description"""
    got, dup = attribution(state)
    if dup:
        return dict(kind="line in two nodes", where=dup[:3])
    for p in platforms:
        g = got.get(p, set())
        e = expected.get(p, set())
        if g != e:
            return dict(kind="attribution differs", platform=p, extra=sorted(g - e)[:6], missing=sorted(e - g)[:6])
    return None


# --------------------------------------------------------------------------
# on-disk replay through the public path + gcc


def disk_replay(fs, configuration, members, exists=None, rootdir="/r"):
    """materialise `fs` under a scratch directory, run the real (unpatched) finder.find with a real CodeBase-like
    member list, return (attribution with scratch prefix removed, warnings, gcc_tokens per platform)"""
    import logging

    import codebasin.finder as finder

    scratch = tempfile.mkdtemp(prefix="vp_replay_")
    try:
        fs.materialise(scratch, exists)
        conf = {}
        for p, entries in configuration.items():
            conf[p] = [dict(file=scratch + e["file"], defines=list(e["defines"]),
                            include_paths=[scratch + x for x in e["include_paths"]],
                            include_files=list(e["include_files"])) for e in entries]
        cb = memfs.FakeCodeBase([scratch + m for m in members], [scratch + rootdir])
        records = []

        class H(logging.Handler):
            def emit(self, r):
                records.append((r.levelname, r.getMessage()))

        h = H()
        lg = logging.getLogger("codebasin")
        lg.addHandler(h)
        old = lg.level
        lg.setLevel(logging.DEBUG)
        try:
            state = finder.find(scratch + rootdir, cb, conf, summarize_only=True, show_progress=False)
        finally:
            lg.removeHandler(h)
            lg.setLevel(old)
        got, dup = attribution(state)
        real_scratch = os.path.realpath(scratch)
        strip = lambda fn: fn[len(real_scratch):] if fn.startswith(real_scratch) else fn
        got = {p: {(strip(fn), ln) for fn, ln in s} for p, s in got.items()}
        gcc = {}
        if shutil.which("gcc"):
            for p, entries in conf.items():
                toks = set()
                ok = True
                for e in entries:
                    cmd = ["gcc", "-E", "-P"] + ["-D" + d for d in e["defines"]] + ["-I" + d for d in e["include_paths"]]
                    for f in e["include_files"]:
                        cmd += ["-include", f]
                    r = subprocess.run(cmd + [e["file"]], capture_output=True, text=True, timeout=30,
                                       cwd=os.path.dirname(e["file"]))
                    if r.returncode != 0 or r.stderr.strip():
                        ok = False
                        gcc[p] = "diagnostic: " + r.stderr.strip()[:200]
                        break
                    toks |= {t.rstrip(";") for t in r.stdout.split() if t.startswith("x_")}
                if ok:
                    gcc[p] = toks
        return got, [(l, m.replace(real_scratch, "").replace(scratch, "")) for l, m in records], gcc
    finally:
        shutil.rmtree(scratch, ignore_errors=True)


def code_tokens(fs, lines):
    """{token} for a set of (path, line) that are code lines in fs"""
    out = set()
    for fn, ln in lines:
        text = fs.files[fn].split("\n")[ln - 1].strip()
        if text.startswith("x_"):
            out.add(text.rstrip(";"))
    return out


def untraced():
    """context manager: leave CrossHair's tracer while code runs on values that are already concrete (the symbolic
    bits were forked on before); a no-op outside CrossHair"""
    import contextlib

    try:
        from crosshair.tracers import NoTracing, is_tracing

        if is_tracing():
            return NoTracing()
    except Exception:
        pass
    return contextlib.nullcontext()


PERMS3 = [(0, 1, 2), (0, 2, 1), (1, 0, 2), (1, 2, 0), (2, 0, 1), (2, 1, 0)]
