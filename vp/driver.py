"""Obligation scheduler for the solver-based checks.

    ./check <ID> [--tier quick|thorough] [--replay file] [--only substr] [--jobs N]

A harness module ``vp.harness.<id>`` provides

    PROPERTY, LEVEL ('other' | 'model_checking'), FUNCTIONS, ASSUMPTIONS,
    BOUNDS (dict tier -> str), EXPLANATION
    obligations(tier, regions) -> list[Ob]
    replay(ob_dict, args) -> dict(reproduced=bool, detail=...)      (optional)

Obligation kinds
    'ch' : CrossHair on module.func with module.P = params.  The verdict is
           CONFIRMED ("Confirmed over all paths") / counterexample / other.
           A reachability twin (P['_twin']=True: the harness returns False
           the moment it reaches its comparison) must be *refuted* first.
    'fn' : module.func(params) run in a worker; returns a result dict built
           by the harness from z3/cvc5 verdicts (E2/E3 engines).

expect
    'hold'        : must be discharged; a replayed counterexample is a VIOLATION
    'witness:<F>' : obligation restricted to the region of known finding F; a
                    replayed counterexample prints KNOWN-FINDING (exit 0)
"""

from __future__ import annotations

import argparse
import importlib
import json
import os
import random
import re
import sys
import time
import traceback
from collections import Counter
from concurrent.futures import ProcessPoolExecutor, as_completed
from dataclasses import asdict, dataclass, field

VERIF = os.path.dirname(os.path.dirname(os.path.abspath(__file__)))
EXIT_HARNESS = 3


@dataclass
class Ob:
    id: str
    kind: str  # 'ch' | 'fn'
    module: str
    func: str
    params: dict = field(default_factory=dict)
    timeout: float = 60.0
    expect: str = "hold"
    twin: bool = True
    group: str = ""


# --------------------------------------------------------------------------
# known findings


def load_known(prop: str) -> dict:
    """Return {finding_id: entry} for entries of `prop` that are *open*
    (recorded, not fixed).  Fixed entries suppress nothing."""
    path = os.path.join(VERIF, "known_findings.json")
    try:
        with open(path) as f:
            data = json.load(f)
    except FileNotFoundError:
        return {}
    out = {}
    for e in data.get("findings", []):
        if e.get("property") == prop and e.get("status") == "open":
            out[e["id"]] = e
    return out


# --------------------------------------------------------------------------
# worker side


def _parse_call(msg: str, fname: str):
    """Extract positional/keyword args from a CrossHair message
    '... when calling f(1, "a") (which returns ...)'."""
    key = "when calling " + fname + "("
    i = msg.find(key)
    if i < 0:
        return None
    j = i + len(key)
    depth = 1
    k = j
    instr = None
    while k < len(msg):
        c = msg[k]
        if instr:
            if c == "\\":
                k += 1
            elif c == instr:
                instr = None
        elif c in "'\"":
            instr = c
        elif c in "([{":
            depth += 1
        elif c in ")]}":
            depth -= 1
            if depth == 0:
                break
        k += 1
    argstr = msg[j:k]

    def _cap(*a, **kw):
        return [list(a), kw]

    try:
        return eval("_cap(" + argstr + ")", {"_cap": _cap, "float": float})
    except Exception:
        return {"unparsed": argstr}


def _run_ch_once(mod, fn, timeout, per_path_timeout):
    from crosshair.core_and_libs import analyze_function, run_checkables
    from crosshair.options import AnalysisOptionSet
    from crosshair.statespace import MessageType

    stats = Counter()
    kw = dict(per_condition_timeout=timeout, report_all=True, stats=stats)
    if per_path_timeout:
        kw["per_path_timeout"] = per_path_timeout
    opts = AnalysisOptionSet(**kw)
    t0 = time.process_time()
    msgs = list(run_checkables(analyze_function(fn, opts)))
    cpu = time.process_time() - t0
    verdict, cex, detail = "inconclusive", None, ""
    if not msgs:
        detail = "no conditions found"
    for m in msgs:
        if m.state == MessageType.CONFIRMED:
            verdict = "discharged"
            detail = m.message
        elif m.state in (
            MessageType.POST_FAIL,
            MessageType.EXEC_ERR,
            MessageType.POST_ERR,
        ):
            cex = _parse_call(m.message, fn.__name__)
            detail = m.message[:600]
            if cex is None or "NotDeterministic" in m.message or "CrossHairInternal" in m.message:
                # an engine-level failure (no concrete call to replay) is not a counterexample
                verdict = "inconclusive"
                detail = "engine error: " + detail
                continue
            verdict = "refuted"
            break
        else:
            detail = f"{m.state.name}: {m.message[:300]}"
    return verdict, cex, detail, int(stats.get("num_paths", 0)), cpu


class HardTimeout(BaseException):
    pass


def _alarm(signum, frame):
    raise HardTimeout()


def run_obligation(obd: dict) -> dict:
    import signal

    ob = Ob(**obd)
    # last line of defence against code under test that loops without touching a symbolic value (CrossHair's own
    # timeouts are only checked at symbolic decisions): the obligation becomes inconclusive
    hard = int(ob.timeout * 4 + 300)
    try:
        signal.signal(signal.SIGALRM, _alarm)
        signal.alarm(hard)
    except Exception:
        pass
    try:
        return _run_obligation(ob)
    except HardTimeout:
        return dict(id=ob.id, expect=ob.expect, group=ob.group, verdict="inconclusive", paths=0, queries=0, cpu_s=0.0,
                    solver_s=0.0, compared=0, cex=None, sample=None, detail="hard timeout after %d s" % hard, wall_s=float(hard))
    finally:
        try:
            signal.alarm(0)
        except Exception:
            pass


def _run_obligation(ob) -> dict:
    res = dict(id=ob.id, expect=ob.expect, group=ob.group, verdict="inconclusive",
               paths=0, queries=0, cpu_s=0.0, solver_s=0.0, compared=0, cex=None,
               detail="", sample=None)
    t0 = time.time()
    try:
        mod = importlib.import_module(ob.module)
        if ob.kind == "fn":
            r = getattr(mod, ob.func)(dict(ob.params))
            res.update(r)
        else:
            fn = getattr(mod, ob.func)
            ppt = ob.params.get("_per_path_timeout")
            if hasattr(mod, "prepare"):
                mod.prepare(dict(ob.params))
            twin_ok = True
            if ob.twin:
                mod.P = dict(ob.params, _twin=True)
                mod.STATS = Counter()
                v, cex, detail, paths, cpu = _run_ch_once(mod, fn, min(ob.timeout, 60), ppt)
                res["paths"] += paths
                res["cpu_s"] += cpu
                if v == "refuted":
                    res["sample"] = cex
                else:
                    twin_ok = False
                    res["detail"] = "reachability twin not refuted (%s: %s)" % (v, detail)
            if twin_ok:
                mod.P = dict(ob.params, _twin=False)
                mod.STATS = Counter()
                v, cex, detail, paths, cpu = _run_ch_once(mod, fn, ob.timeout, ppt)
                res["paths"] += paths
                res["cpu_s"] += cpu
                res["verdict"] = v
                res["cex"] = cex
                res["detail"] = detail
                res["compared"] = int(mod.STATS.get("compared", 0))
    except HardTimeout:
        raise
    except BaseException as e:  # noqa
        res["verdict"] = "inconclusive"
        res["detail"] = "worker error: " + "".join(
            traceback.format_exception_only(type(e), e)
        ).strip()[:500] + " @ " + traceback.format_exc()[-600:]
    res["wall_s"] = time.time() - t0
    return res


def _safe_run(od: dict) -> dict:
    try:
        return run_obligation(od)
    except BaseException as e:  # noqa
        return dict(id=od["id"], expect=od["expect"], group=od["group"], verdict="inconclusive", paths=0, queries=0,
                    cpu_s=0.0, solver_s=0.0, compared=0, cex=None, sample=None, detail="pool error %r" % (e,), wall_s=0.0)


def run_replay(obd: dict, cex) -> dict:
    """Native re-execution (no CrossHair) of a counterexample."""
    ob = Ob(**obd)
    try:
        mod = importlib.import_module(ob.module)
        if hasattr(mod, "prepare"):
            mod.prepare(dict(ob.params))
        if hasattr(mod, "replay"):
            return mod.replay(obd, cex)
        if ob.kind != "ch" or not isinstance(cex, list):
            return dict(reproduced=False, detail="no replay available for %r" % (cex,))
        mod.P = dict(ob.params, _twin=False, _replay=True)
        mod.STATS = Counter()
        mod.LAST = {}
        args, kw = cex
        try:
            ok = getattr(mod, ob.func)(*args, **kw)
            detail = dict(getattr(mod, "LAST", {}))
        except Exception as e:
            ok = False
            detail = {"exception": repr(e), "tb": traceback.format_exc()[-800:]}
        return dict(reproduced=(ok is False), detail=detail)
    except BaseException as e:  # noqa
        return dict(reproduced=False, detail="replay error: %r %s" % (e, traceback.format_exc()[-500:]))


# --------------------------------------------------------------------------
# driver


def _jsonable(x):
    try:
        json.dumps(x)
        return x
    except Exception:
        return repr(x)


def main(argv=None):
    ap = argparse.ArgumentParser()
    ap.add_argument("prop")
    ap.add_argument("--tier", default=os.environ.get("VERIF_TIER", "quick"))
    ap.add_argument("--replay")
    ap.add_argument("--only")
    ap.add_argument("--jobs", type=int, default=int(os.environ.get("VERIF_JOBS", "16")))
    ap.add_argument("--no-evidence", action="store_true")
    args = ap.parse_args(argv)
    prop = args.prop.upper()
    tier = args.tier if args.tier in ("quick", "thorough") else "quick"
    seed = int(os.environ.get("VERIF_SEED", "0") or 0)
    t_start = time.time()

    mod = importlib.import_module("vp.harness." + prop.lower())

    if args.replay:
        with open(args.replay) as f:
            rp = json.load(f)
        r = run_replay(rp["obligation"], rp["counterexample"])
        print(json.dumps(r, indent=1, default=repr))
        if r.get("reproduced"):
            print(f"VIOLATION property={prop} replay={args.replay}")
            return 1
        return 0

    known = load_known(prop)
    obs = mod.obligations(tier, known)
    if args.only:
        obs = [o for o in obs if args.only in o.id]
    random.Random(seed).shuffle(obs)
    # longest first helps the tail
    obs.sort(key=lambda o: -o.timeout)
    obds = [asdict(o) for o in obs]
    results = []
    import multiprocessing as mp

    ctx = mp.get_context("fork")
    byid = {od["id"]: od for od in obds}
    with ctx.Pool(processes=min(args.jobs, max(1, len(obds))), maxtasksperchild=4) as pool:
        for r in pool.imap_unordered(_safe_run, obds, chunksize=1):
            r["_ob"] = byid[r["id"]]
            results.append(r)
            if os.environ.get("VERIF_VERBOSE") or r.get("wall_s", 0) > 60:
                print(f"  .. {r['id']} {r['verdict']} wall={r.get('wall_s', 0):.1f}s paths={r['paths']} "
                      f"queries={r.get('queries', 0)}", flush=True)

    violations, known_lines, harness_errors, inconclusive = [], [], [], []
    n_dis = 0
    os.makedirs(os.path.join(VERIF, "replays"), exist_ok=True)
    for r in sorted(results, key=lambda r: r["id"]):
        exp = r["expect"]
        if r["verdict"] == "discharged":
            n_dis += 1
            if exp.startswith("witness:"):
                print(f"NOTE known finding {exp[8:]} no longer has a witness in obligation {r['id']}")
            continue
        if r["verdict"] == "inconclusive":
            inconclusive.append(r)
            print(f"INCONCLUSIVE obligation={r['id']} {r['detail'][:300]}")
            continue
        # refuted: replay natively in this (untraced) process pool
        cexs = r["cex"] if r.get("multi") else [r["cex"]]
        for cex in cexs:
            with ProcessPoolExecutor(max_workers=1) as ex:
                rep = ex.submit(run_replay, r["_ob"], cex).result()
            if not rep.get("reproduced"):
                harness_errors.append((r, rep))
                print(f"HARNESS-ERROR obligation={r['id']} counterexample {cex!r} did not reproduce: {str(rep.get('detail'))[:400]}")
                continue
            if exp.startswith("witness:"):
                fid = exp[8:]
                what = known.get(fid, {}).get("what", "")
                line = f"KNOWN-FINDING: property={prop} {fid}: {what} [witness {json.dumps(_jsonable(cex))[:160]}]"
                if line not in known_lines:
                    known_lines.append(line)
                    print(line)
                n_dis += 1  # the witness obligation did what it is there for
                break
            path = os.path.join(VERIF, "replays", f"{prop}-{re.sub(r'[^A-Za-z0-9_.-]', '_', r['id'])[:80]}.json")
            with open(path, "w") as f:
                json.dump(dict(property=prop, obligation=r["_ob"], counterexample=_jsonable(cex),
                               detail=_jsonable(rep.get("detail")), message=r["detail"]), f, indent=1, default=repr)
            violations.append((r, path))
            print(f"VIOLATION property={prop} replay={path}")
            print(f"  obligation={r['id']} counterexample={cex!r}\n  {str(rep.get('detail'))[:500]}")
            break

    wall = time.time() - t_start
    # ---------------- evidence
    samples = []
    for r in results:
        if r.get("sample") is not None and len(samples) < 6:
            samples.append({"obligation": r["id"], "witness": _jsonable(r["sample"])})
    if not samples:
        samples = [{"obligation": r["id"], "verdict": r["verdict"]} for r in results[:3]]
    paths = sum(r["paths"] for r in results)
    queries = sum(r.get("queries", 0) for r in results)
    compared = sum(r.get("compared", 0) for r in results)
    cov = dict(
        explanation=getattr(mod, "EXPLANATION", ""),
        obligations=len(results),
        discharged=n_dis,
        refuted=len(violations),
        known_finding_witnesses=len(known_lines),
        inconclusive=len(inconclusive),
        inconclusive_ids=[r["id"] for r in inconclusive][:40],
        harness_errors=len(harness_errors),
        evaluations=paths + queries,
        crosshair_paths=paths,
        smt_queries=queries,
        distinct_nontrivial=compared,
        rule="evaluations = CrossHair execution paths + SMT queries; distinct_nontrivial = paths/queries that "
             "reached the implementation-vs-reference comparison with satisfiable assumptions (each path is a "
             "distinct solver-separated input class)",
        samples=samples,
        functions_encoded=getattr(mod, "FUNCTIONS", []),
        bounds=getattr(mod, "BOUNDS", {}).get(tier, ""),
        stubs=getattr(mod, "STUBS", []),
        cpu_s=round(sum(r["cpu_s"] for r in results), 2),
        solver_time_s=round(sum(r.get("solver_s", 0.0) for r in results), 2),
        engines=_engines(),
        known_findings=known_lines,
        groups=_group_summary(results),
        exhaustive=False,
    )
    if getattr(mod, "LEVEL", "other") == "model_checking":
        cov.update(mod.mc_coverage(results))
    ev = dict(property_id=prop, tier=tier, seed=seed, level=getattr(mod, "LEVEL", "other"),
              coverage=cov, assumptions=getattr(mod, "ASSUMPTIONS", []), wall_s=round(wall, 2),
              violations=len(violations))
    if not args.no_evidence and not args.only:
        os.makedirs(os.path.join(VERIF, "evidence"), exist_ok=True)
        with open(os.path.join(VERIF, "evidence", prop + ".json"), "w") as f:
            json.dump(ev, f, indent=1, default=repr)
    print(f"SUMMARY property={prop} tier={tier} obligations={len(results)} discharged={n_dis} "
          f"violations={len(violations)} known={len(known_lines)} inconclusive={len(inconclusive)} "
          f"harness_errors={len(harness_errors)} paths={paths} queries={queries} wall={wall:.1f}s")
    if violations:
        return 1
    if harness_errors:
        return EXIT_HARNESS
    return 0


def _group_summary(results):
    g = {}
    for r in results:
        d = g.setdefault(r.get("group") or "-", Counter())
        d[r["verdict"]] += 1
        d["paths"] += r["paths"]
        d["queries"] += r.get("queries", 0)
    return {k: dict(v) for k, v in g.items()}


def _engines():
    out = {}
    try:
        import crosshair
        out["crosshair"] = crosshair.__version__
    except Exception:
        pass
    try:
        import z3
        out["z3"] = z3.get_version_string()
    except Exception:
        pass
    return out


if __name__ == "__main__":
    sys.exit(main())
